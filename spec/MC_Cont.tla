------------------------------- MODULE MC_Cont ------------------------------
(***************************************************************************)
(* C16: arrays, strings, hashes and ranges as ordered, total containers.   *)
(* Every index from below zero to beyond the end (and non-integer indexes) *)
(* on arrays and strings of length 0-4 with mixed and multi-byte content;  *)
(* every range a..b for small a, b; hashes over keys whose printed forms   *)
(* coincide (1, 1.0, "1") with every lookup key, len, keys, membership;    *)
(* foreach accumulation over every container (values and index/key),       *)
(* nested over the same container; containers as literal, variable, field. *)
(***************************************************************************)
EXTENDS EFCorpus, Json

CONSTANT Tier,
         Seed      \* (not used by this corpus: nothing in it is sampled)

VARIABLE row
vars == <<row>>

Fuel == 60
Host == <<<<"t", <<"log">>>>>>

\* sequences (arrays and strings).  "é" = 233, "日" = 26085, "😀" = 128512
Seqs == <<
  A(<<>>), A(<<I(7)>>), A(<<I(1), I(2)>>), A(<<I(1), S(<<97>>), B(TRUE)>>), A(<<F(3, 2), N, S(<<>>), I(-1)>>),
  A(<<A(<<I(1)>>), H(<<>>)>>), A(<<I(3), I(1), I(2)>>), A(<<S(<<98>>), S(<<97>>), S(<<99>>)>>),
  S(<<>>), S(<<97>>), S(<<233>>), S(<<97, 233>>), S(<<233, 97, 98>>), S(<<26085, 128512, 97>>), S(<<97, 98, 99, 100>>)
>>
Idxs == << I(-2), I(-1), I(0), I(1), I(2), I(3), I(4), I(5), I(6), I(255), F(1, 1), F(1, 2), S(<<48>>), B(TRUE), N, A(<<I(0)>>) >>

\* hash keys: integer, float and string keys, some of which print alike
\* (10, "1a" and "10+": numbers whose order by value and by printed form differ, and strings which print between them)
HKeys == << I(1), F(1, 1), S(<<49>>), I(2), S(<<97>>), S(<<65>>), F(3, 2), S(<<49, 46, 53>>), I(0), I(10), S(<<49, 97>>), S(<<49, 48, 43>>) >>
\* hashes as sets of indices into HKeys; the value stored under HKeys[i] is I(100 + i)
HSets == << {}, {1}, {3}, {1, 3}, {1, 2, 3}, {4, 5, 6}, {7, 8}, {1, 2, 3, 4, 5, 6, 7, 8}, {5, 6, 9}, {4, 10, 11}, {1, 4, 10, 12}, {4, 7, 10, 11, 12} >>
RECURSIVE SetToSeq(_)
SetToSeq(s) == IF s = {} THEN <<>> ELSE LET m == CHOOSE x \in s : \A y \in s : x <= y IN <<m>> \o SetToSeq(s \ {m})
HashOf(hs) == LET ks == SetToSeq(hs) IN H([i \in 1..Len(ks) |-> <<HKeys[ks[i]], I(100 + ks[i])>>])
BadKeys == << B(TRUE), N, A(<<I(1)>>), H(<<>>) >>

Provs == <<"lit", "var", "fld">>
FieldOK(v) == \/ Tag(v) \in {"I", "F", "S", "B", "N"}
              \/ (IsArr(v) /\ \A i \in 1..Len(v[2]) : Tag(v[2][i]) \in {"I", "F", "S", "B"})
              \/ (IsHash(v) /\ \A i \in 1..Len(v[2]) : IsStr(v[2][i][1]) /\ Tag(v[2][i][2]) \in {"I", "F", "S", "B"})

\* container expression, initial variables and object for a provenance
CExpr(p, c) == CASE p = "lit" -> <<"lit", c>> [] p = "var" -> Ref("c1") [] p = "fld" -> Ref("F1")
G0(p, c)    == IF p = "var" THEN <<<<"c1", c>>>> ELSE <<>>
Obj(p, c)   == IF p = "fld" THEN <<<<"F1", c>>>> ELSE <<>>

MkRow(kind, p, c, prog) ==
  LET r1 == RunProgram(prog, G0(p, c), Obj(p, c), Host, Fuel)
      r2 == RunProgram(prog, r1.g, Obj(p, c), Host, Fuel)
  IN [k |-> kind, prov |-> p, prog |-> prog, fns |-> Host, vars |-> G0(p, c), repeat |-> TRUE,
      runs |-> <<[obj |-> Obj(p, c), exp |-> [out |-> r1.out, calls |-> r1.calls, vars |-> r1.g]],
                 [obj |-> Obj(p, c), exp |-> [out |-> r2.out, calls |-> r2.calls, vars |-> r2.g]]>>,
      done |-> TRUE]

\* programs over a container expression x
IndexProg(x, i)  == <<Ret(BinE("[]", x, <<"lit", i>>))>>
LenProg(x)       == <<Ret(<<"arr", <<CallE("len", <<x>>), CallE("type", <<x>>)>>>>)>>
EachProg(x)      == <<ForEach("k", "e", x, <<TE(Ref("k")), TE(Ref("e"))>>), Ret(<<"arr", <<Ref("k"), Ref("e")>>>>)>>
EachValProg(x)   == <<Asg("n", LitI(0)), ForEach("", "e", x, <<TE(Ref("e")), Bump("n")>>), Ret(Ref("n"))>>
NestProg(x)      == <<Asg("n", LitI(0)), ForEach("", "e", x, <<ForEach("", "f", x, <<Bump("n"), TE(Ref("f"))>>), TE(Ref("e"))>>), Ret(Ref("n"))>>
\* the container is still what it was after other code derived something from it (an ordered copy, a reversed
\* copy, an iteration): elements in written order, visited once each
AsideProg(x)     == <<Asg("s", CallE("sort", <<x>>)), Asg("v", CallE("reverse", <<x>>)), Asg("n", LitI(0)),
                      ForEach("", "e", x, <<TE(Ref("e")), Bump("n")>>),
                      Ret(<<"arr", <<x, BinE("[]", x, LitI(0)), Ref("n"), CallE("len", <<Ref("s")>>), CallE("len", <<Ref("v")>>)>>>>)>>
InProg(x, e)     == <<Ret(BinE("in", <<"lit", e>>, x))>>
KeysProg(x)      == <<Ret(CallE("keys", <<x>>))>>
PrintProg(x)     == <<Ret(CallE("string", <<x>>))>>
RangeProg(a, b)  == <<Asg("n", LitI(0)), ForEach("k", "e", BinE("..", LitI(a), LitI(b)), <<TE(Ref("k")), TE(Ref("e")), Bump("n")>>),
                      Ret(<<"arr", <<Ref("n"), BinE("..", LitI(a), LitI(b)), CallE("len", <<BinE("..", LitI(a), LitI(b))>>)>>>>)>>
\* a hash literal written with a repeated key, and keys that are expressions
Members == << I(1), I(2), I(7), F(1, 1), F(3, 2), S(<<97>>), S(<<>>), S(<<49>>), B(TRUE), N, S(<<233>>), S(<<97, 233>>), S(<<98, 99>>) >>

Init ==
  \/ \E p \in 1..3, c \in 1..Len(Seqs) : row = [k |-> "seq0", prov |-> Provs[p], c |-> Seqs[c], done |-> FALSE]
  \/ \E p \in 1..3, h \in 1..Len(HSets) : row = [k |-> "hash0", prov |-> Provs[p], c |-> HashOf(HSets[h]), done |-> FALSE]
  \/ \E a \in -2..4 : row = [k |-> "range0", a |-> a, done |-> FALSE]

Next ==
  /\ ~row.done
  /\ \/ /\ row.k = "seq0" /\ (row.prov = "fld" => FieldOK(row.c))
        /\ LET x == CExpr(row.prov, row.c) IN
           \/ \E i \in 1..Len(Idxs) : row' = MkRow("index", row.prov, row.c, IndexProg(x, Idxs[i]))
           \/ row' = MkRow("len", row.prov, row.c, LenProg(x))
           \/ row' = MkRow("each", row.prov, row.c, EachProg(x))
           \/ row' = MkRow("eachval", row.prov, row.c, EachValProg(x))
           \/ row' = MkRow("nest", row.prov, row.c, NestProg(x))
           \/ row' = MkRow("print", row.prov, row.c, PrintProg(x))
           \/ (IsArr(row.c) /\ row' = MkRow("aside", row.prov, row.c, AsideProg(x)))
           \/ \E m \in 1..Len(Members) : row' = MkRow("in", row.prov, row.c, InProg(x, Members[m]))
     \/ /\ row.k = "hash0" /\ (row.prov = "fld" => FieldOK(row.c))
        /\ LET x == CExpr(row.prov, row.c) IN
           \/ \E i \in 1..Len(HKeys) : row' = MkRow("hindex", row.prov, row.c, IndexProg(x, HKeys[i]))
           \/ \E i \in 1..Len(BadKeys) : row' = MkRow("hbadkey", row.prov, row.c, IndexProg(x, BadKeys[i]))
           \/ row' = MkRow("hlen", row.prov, row.c, LenProg(x))
           \/ row' = MkRow("heach", row.prov, row.c, EachProg(x))
           \/ row' = MkRow("heachval", row.prov, row.c, EachValProg(x))
           \/ row' = MkRow("hnest", row.prov, row.c, NestProg(x))
           \/ row' = MkRow("hkeys", row.prov, row.c, KeysProg(x))
           \/ row' = MkRow("hprint", row.prov, row.c, PrintProg(x))
     \/ /\ row.k = "range0"
        /\ \E b \in -2..4 : row' = MkRow("range", "lit", N, RangeProg(row.a, b))

Spec == Init /\ [][Next]_vars

\* ---- checked on the model -------------------------------------------------
\* indexing is total: a value, null, or (wrong index type) an error - never unconstrained
IndexTotal == (row.done /\ row.k \in {"index", "hindex", "hbadkey"}) => ~IsSkip(row.runs[1].exp.out)
\* foreach visits Len elements: two calls per element
VisitsAll == (row.done /\ row.k = "each" /\ Defined(row.runs[1].exp.out)) =>
                Len(row.runs[1].exp.calls) % 2 = 0
\* the second run repeats the first (containers carry no iteration state between runs)
Repeatable == row.done => row.runs[1].exp.out = row.runs[2].exp.out /\ row.runs[1].exp.calls = row.runs[2].exp.calls

Export == row.done => PrintT(<<"ROW", ToJson(row)>>)
=============================================================================
