------------------------------ MODULE MC_Verify ------------------------------
(***************************************************************************)
(* C18: every accepted script compiles to well-formed machine code.        *)
(* The prepared programs of the real evaluator (constants, main body and   *)
(* every function body, before and after optimisation, read through the    *)
(* verif accessors and written to progs.ndjson by the harness) are the     *)
(* input; TLC explores ALL control-flow paths of every body with an        *)
(* abstract stack - its height, the loop bases, and whether its top is a   *)
(* known boolean - and reports every state in which a clause of the        *)
(* property fails:                                                         *)
(*   decode      unknown opcode / operand cut off by the end of the body   *)
(*   target      a jump which does not land on an instruction of the body  *)
(*   constant    a constant reference out of range or of the wrong kind    *)
(*   noreturn    the end of a function body is reachable                   *)
(*   underflow   an instruction consumes more than the path produced       *)
(* Calls are taken to push one value (the statement's proviso).            *)
(***************************************************************************)
EXTENDS EFBytecode, Json, TLC

\* progs.ndjson: one record per prepared program:
\*   [id, consts (sequence of kind letters), bodies (sequence of [name, isfn, code])]
Progs == ndJsonDeserialize("progs.ndjson")
NP == Len(Progs)

Cap == 12      \* abstract stack heights saturate here

\* instruction starts of every body, decoded once
StartSets == [pi \in 1..NP |-> [bi \in 1..Len(Progs[pi].bodies) |-> Starts(Progs[pi].bodies[bi].code, 0)]]

VARIABLES p, b, ip, depth, bases, tos, bad
vars == <<p, b, ip, depth, bases, tos, bad>>

Body(pi, bi) == Progs[pi].bodies[bi]
Code(pi, bi) == Body(pi, bi).code
NConsts(pi)  == Len(Progs[pi].consts)

\* heights are exact below Cap; Cap itself stands for "Cap or more, unknown" and is sticky
Sat(n) == IF n >= Cap THEN Cap ELSE n

Init ==
  /\ p \in 1..NP
  /\ b \in 1..Len(Progs[p].bodies)
  /\ ip = 0 /\ depth = 0 /\ bases = <<>> /\ tos = "?"
  /\ LET st == StartSets[p][b] IN
     bad = IF -1 \in st THEN "decode: unknown opcode"
           ELSE IF -2 \in st THEN "decode: operand cut off by the end of the body"
           ELSE "none"

\* one abstract step from a good state
Step ==
  LET c == Code(p, b)
      st == StartSets[p][b]
      op == ByteAt(c, ip)
      arg == IF OpLen(op) = 3 THEN ArgAt(c, ip) ELSE 0
      nxt == ip + OpLen(op)
      Go(ip2, d2, bs2, t2) == /\ ip' = ip2 /\ depth' = Sat(d2) /\ bases' = bs2 /\ tos' = t2 /\ bad' = "none"
      Bad(why) == /\ bad' = why /\ UNCHANGED <<ip, depth, bases, tos>>
      Pop(n, pushes, t2) == IF depth = Cap THEN Go(nxt, Cap, bases, t2)
                            ELSE IF depth < n THEN Bad("underflow") ELSE Go(nxt, depth - n + pushes, bases, t2)
      Target(t) == t \in st
  IN
  /\ UNCHANGED <<p, b>>
  /\ CASE op \in {OpNop, OpPlaceholder} -> Go(nxt, depth, bases, tos)
       [] op = OpConstant -> IF arg >= NConsts(p) THEN Bad("constant: index out of range") ELSE Go(nxt, depth + 1, bases, "?")
       [] op = OpLookup -> IF arg >= NConsts(p) THEN Bad("constant: index out of range")
                           ELSE IF Progs[p].consts[arg + 1] # "S" THEN Bad("constant: a name must be a string")
                           ELSE Go(nxt, depth + 1, bases, "?")
       [] op \in {OpInc, OpDec} -> IF arg >= NConsts(p) THEN Bad("constant: index out of range")
                                   ELSE IF Progs[p].consts[arg + 1] # "S" THEN Bad("constant: a name must be a string")
                                   ELSE Pop(1, 0, "?")
       [] op = OpPush -> Go(nxt, depth + 1, bases, "?")
       [] op = OpTrue -> Go(nxt, depth + 1, bases, "T")
       [] op = OpFalse -> Go(nxt, depth + 1, bases, "F")
       [] op = OpVoid -> Go(nxt, depth + 1, bases, "?")
       [] op \in BinaryOps -> Pop(2, 1, "?")
       [] op \in UnaryOps -> Pop(1, 1, "?")
       [] op = OpSet -> Pop(2, 0, "?")
       [] op = OpLocal -> Pop(1, 0, "?")
       [] op \in {OpArray, OpHash} -> Pop(arg, 1, "?")
       [] op = OpCall -> Pop(arg + 1, 1, "?")
       [] op = OpReturn -> IF depth < 1 THEN Bad("underflow") ELSE Go(-1, 0, <<>>, "?")        \* ip = -1: the path ended in a return
       [] op = OpJump -> IF Target(arg) THEN Go(arg, depth, bases, tos) ELSE Bad("target: jump does not land on an instruction")
       [] op = OpJumpIfFalse ->
            IF depth < 1 THEN Bad("underflow")
            ELSE IF ~Target(arg) THEN Bad("target: jump does not land on an instruction")
            ELSE \/ (tos # "F" /\ Go(nxt, depth - 1, bases, "?"))
                 \/ (tos # "T" /\ Go(arg, depth - 1, bases, "?"))
       [] op = OpIterationReset -> IF depth < 1 THEN Bad("underflow") ELSE Go(nxt, depth, Append(bases, depth), "?")
       [] op = OpIterationNext ->
            \* pops the two names, drops what the body left above the object, pops the object
            LET base == IF Len(bases) > 0 THEN bases[Len(bases)] ELSE (IF depth = Cap THEN Cap ELSE depth - 2)
                rest == IF Len(bases) > 0 THEN SubSeq(bases, 1, Len(bases) - 1) ELSE bases IN
            IF depth # Cap /\ depth < 3 THEN Bad("underflow")
            ELSE IF depth # Cap /\ base # Cap /\ depth - 2 < base THEN Bad("underflow")
            ELSE \/ Go(nxt, base + 1, bases, "T")          \* another element: the object and true
                 \/ Go(nxt, base, rest, "F")               \* exhausted: false

Next ==
  /\ bad = "none"
  /\ ip >= 0
  /\ IF ip >= Len(Code(p, b))
     THEN \* the end of the body was reached without a return
          /\ Body(p, b).isfn
          /\ bad' = "noreturn: the end of a function body is reachable"
          /\ UNCHANGED <<p, b, ip, depth, bases, tos>>
     ELSE Step

Spec == Init /\ [][Next]_vars

\* every reachable instruction pointer is an instruction start (follows from the target checks)
IpOnBoundary == (bad = "none" /\ ip >= 0 /\ ip < Len(Code(p, b))) => ip \in StartSets[p][b]

\* violations are exported, not raised: TLC goes on to explore every other program
Export == (bad # "none") =>
            PrintT(<<"ROW", ToJson([k |-> "bad", id |-> Progs[p].id, body |-> Body(p, b).name, ip |-> ip, depth |-> depth, why |-> bad])>>)
=============================================================================
