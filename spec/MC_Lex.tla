------------------------------- MODULE MC_Lex -------------------------------
(***************************************************************************)
(* C14: literals mean what they spell; layout and comments mean nothing.   *)
(* (1) every string over an alphabet of character classes - letters incl.  *)
(*     the escape letters n and the flag letters i m, digits, '.', both    *)
(*     quotes, backslash, '/', newline, space, '#', a multi-byte letter,   *)
(*     brackets, '=' - up to a length bound: the transition graph of the   *)
(*     lexer, one implementation test per path, with the token stream      *)
(*     EFLexer prescribes;                                                 *)
(* (2) sequences of token spellings with every choice of white space,      *)
(*     newlines and comments in every gap: the token stream must be the    *)
(*     one of the plain single-space layout (checked on the model by       *)
(*     LayoutInvariant, and on the implementation by replay).              *)
(***************************************************************************)
EXTENDS EFLexer, Json

CONSTANT Tier,
         Seed      \* >= 1: shifts which part of a sampled family is taken (1 = the default sample)

VARIABLE row
vars == <<row>>

MaxLen == IF Tier = "quick" THEN 4 ELSE 5

\*            a   n    i    m    1   0   .   "   '   \   /   \n  sp  #   é    (   )   =   NUL
Alphabet == <<97, 110, 105, 109, 49, 48, 46, 34, 39, 92, 47, 10, 32, 35, 233, 40, 41, 61, 0>>
NA == Len(Alphabet)
\* a second, smaller alphabet for longer texts: quotes, the backslash and every layout character which may follow it
\*             "   '   \   CR  LF  TAB a   n
Alphabet2 == <<34, 39, 92, 13, 10, 9, 97, 110>>
MaxLen2 == IF Tier = "quick" THEN 5 ELSE 6
Alph(al) == IF al = 1 THEN Alphabet ELSE Alphabet2
MaxL(al) == IF al = 1 THEN MaxLen ELSE MaxLen2

\* token spellings for the layout family
Spell == <<
  <<97>>,                               \* a
  <<105, 110>>,                         \* in
  <<49, 50>>,                           \* 12
  <<49, 46, 53>>,                       \* 1.5
  <<34, 115, 92, 34, 120, 34>>,         \* "s\"x"
  <<39, 113, 32, 47, 47, 39>>,          \* 'q //'   (a comment opener inside a string)
  <<47, 114, 92, 47, 47, 105>>,         \* /r\//i
  <<40>>, <<41>>, <<61>>, <<61, 61>>, <<47>>, <<46, 46>>, <<120, 49>>, <<91>>, <<93>>, <<59>>
>>
NS == Len(Spell)
SlashIx == 12
BeforeSlash == {1, 3, 4, 9, 14, 16}      \* a  12  1.5  )  x1  ]

Seps == << <<32>>, <<10>>, <<9, 32>>, <<32, 47, 47, 32, 99, 10>>, <<32, 47, 47, 10>>, <<13, 10>>, <<32, 47, 47, 47, 34, 10, 32>> >>
NSep == Len(Seps)

Join3(a, s1, b, s2, c, lead, trail) == lead \o Spell[a] \o s1 \o Spell[b] \o s2 \o Spell[c] \o trail

Types(toks) == [k \in 1..Len(toks) |-> toks[k][1]]

Init ==
  \/ \E al \in 1..2 : \E c \in 1..Len(Alph(al)) : row = [k |-> "lex", al |-> al, cs |-> <<Alph(al)[c]>>, toks |-> Lex(<<Alph(al)[c]>>)]
  \/ \E a \in 1..NS, b \in 1..NS : row = [k |-> "lay0", a |-> a, b |-> b]

Next ==
  \/ /\ row.k = "lex" /\ Len(row.cs) < MaxL(row.al)
     /\ \E c \in 1..Len(Alph(row.al)) : LET s == Append(row.cs, Alph(row.al)[c]) IN row' = [k |-> "lex", al |-> row.al, cs |-> s, toks |-> Lex(s)]
  \/ /\ row.k = "lay0"
     /\ \E c \in 1..NS, s1 \in 1..NSep, s2 \in 1..NSep, edge \in BOOLEAN :
          /\ (Tier = "thorough" \/ (row.a + 3 * row.b + 5 * c + s1 + 2 * s2 + Seed - 1) % 5 = 0)
          \* the division sign only where it is a division sign: elsewhere it opens a regexp and
          \* the "layout" would be part of a literal
          /\ row.a # SlashIx /\ (row.b = SlashIx => row.a \in BeforeSlash) /\ (c = SlashIx => row.b \in BeforeSlash)
          /\ LET plain == Join3(row.a, <<32>>, row.b, <<32>>, c, <<>>, <<>>)
                 text  == Join3(row.a, Seps[s1], row.b, Seps[s2], c, IF edge THEN Seps[s2] ELSE <<>>, IF edge THEN Seps[s1] ELSE <<>>)
             IN row' = [k |-> "layout", cs |-> text, plain |-> plain, toks |-> Lex(plain), same |-> (Lex(text) = Lex(plain))]

Spec == Init /\ [][Next]_vars

\* ---- checked on the model ------------------------------------------------------------
\* layout and comments between tokens never change the token sequence
LayoutInvariant == row.k = "layout" => row.same
\* every token consumes at least one character: tokenisation terminates
Terminates == row.k = "lex" => Progress(row.cs)
\* the stream ends with EOF or stops at an ILLEGAL token
WellEnded == row.k \in {"lex", "layout"} => row.toks[Len(row.toks)][1] \in {"EOF", "ILLEGAL"}

Export == row.k \in {"lex", "layout"} => PrintT(<<"ROW", ToJson(row)>>)
=============================================================================
