----------------------------- MODULE EFBuiltins -----------------------------
(***************************************************************************)
(* Contracts of the default function set, as pure operators over EFValues. *)
(* Written from the README ("Built-In Functions") and property C17.        *)
(* A built-in applied to a wrong number or wrong types of arguments yields *)
(* null (false for match); it never fails.  Where the documents are silent *)
(* the result is SKIP.                                                     *)
(***************************************************************************)
EXTENDS EFValues

BuiltinNames == {"between", "float", "getenv", "int", "join", "keys", "len", "lower", "match",
                 "max", "min", "now", "panic", "print", "printf", "replace", "reverse", "sort",
                 "split", "sprintf", "string", "time", "trim", "type", "upper",
                 "hour", "minute", "seconds", "day", "month", "year", "weekday"}

IsBuiltin(n) == n \in BuiltinNames

UpperC(c) == IF c >= 97 /\ c <= 122 THEN c - 32 ELSE c
LowerC(c) == IF c >= 65 /\ c <= 90 THEN c + 32 ELSE c
Ascii(cps) == \A k \in 1..Len(cps) : cps[k] < 128
IsSpace(c) == c \in {9, 10, 11, 12, 13, 32}

RECURSIVE TrimLeft(_), TrimRight(_)
TrimLeft(s)  == IF Len(s) > 0 /\ IsSpace(s[1]) THEN TrimLeft(Tail(s)) ELSE s
TrimRight(s) == IF Len(s) > 0 /\ IsSpace(s[Len(s)]) THEN TrimRight(SubSeq(s, 1, Len(s) - 1)) ELSE s

\* decimal integer spelling -> value ("-12", "7"); anything else is not an integer spelling
IsDigits(s) == Len(s) > 0 /\ Len(s) <= 9 /\ \A k \in 1..Len(s) : s[k] >= 48 /\ s[k] <= 57
RECURSIVE DigitsVal(_)
DigitsVal(s) == IF Len(s) = 0 THEN 0 ELSE DigitsVal(SubSeq(s, 1, Len(s) - 1)) * 10 + (s[Len(s)] - 48)

ParseIntCps(s) ==
  IF IsDigits(s) THEN I(DigitsVal(s))
  ELSE IF Len(s) > 1 /\ s[1] = 45 /\ IsDigits(Tail(s)) THEN I(-DigitsVal(Tail(s)))
  ELSE IF Len(s) > 1 /\ s[1] = 43 /\ IsDigits(Tail(s)) THEN SKIP      \* "+5": the documents are silent
  ELSE IF Len(s) > 9 THEN SKIP
  ELSE N

\* split s by a non-empty separator d
RECURSIVE SplitBy(_, _, _)
SplitBy(s, d, cur) ==
  IF Len(s) = 0 THEN <<S(cur)>>
  ELSE IF Len(s) >= Len(d) /\ SubSeq(s, 1, Len(d)) = d
       THEN <<S(cur)>> \o SplitBy(SubSeq(s, Len(d) + 1, Len(s)), d, <<>>)
       ELSE SplitBy(Tail(s), d, Append(cur, s[1]))

RECURSIVE JoinWith(_, _, _)
JoinWith(es, d, i) ==
  IF i > Len(es) THEN <<>>
  ELSE LET h == Inspect(es[i]) t == JoinWith(es, d, i + 1) IN
       IF h = NoPrint \/ t = NoPrint THEN NoPrint
       ELSE IF i = Len(es) THEN h ELSE h \o d \o t

\* ---- ordering used by sort / reverse / keys: by printed form -------------
FoldCase(s) == [k \in 1..Len(s) |-> LowerC(s[k])]
KeyOf(v, ci) == IF ci THEN FoldCase(Inspect(v)) ELSE Inspect(v)

\* insertion sort of values by printed form (stable); rev reverses the order
RECURSIVE InsertBy(_, _, _, _), SortBy(_, _, _)
InsertBy(x, sorted, ci, rev) ==
  IF Len(sorted) = 0 THEN <<x>>
  ELSE LET before == IF rev THEN SeqLess(KeyOf(sorted[1], ci), KeyOf(x, ci))
                            ELSE SeqLess(KeyOf(x, ci), KeyOf(sorted[1], ci))
       IN IF before THEN <<x>> \o sorted ELSE <<sorted[1]>> \o InsertBy(x, Tail(sorted), ci, rev)
SortBy(es, ci, rev) ==
  IF Len(es) = 0 THEN <<>>
  ELSE InsertBy(es[Len(es)], SortBy(SubSeq(es, 1, Len(es) - 1), ci, rev), ci, rev)

AllPrintable(es) == \A k \in 1..Len(es) : Inspect(es[k]) # NoPrint
\* two elements with the same sort key leave the order between them unspecified
NoKeyTies(es, ci) == \A a \in 1..Len(es), b \in 1..Len(es) : a # b => KeyOf(es[a], ci) # KeyOf(es[b], ci)

\* hash entries in iteration / printing / keys() order: by printed key
HashSorted(ps) == LET ks == [k \in 1..Len(ps) |-> ps[k][1]] IN SortBy(ks, FALSE, FALSE)
HashOrderDefined(ps) == LET ks == [k \in 1..Len(ps) |-> ps[k][1]] IN AllPrintable(ks) /\ NoKeyTies(ks, FALSE)

NumArg(v) == IsNum(v)

\* The contract of built-in `name` applied to `args` (a sequence of values).
\* Returns a value, V (nothing), or SKIP.  "PANIC" is the outcome of panic().
PANIC == <<"PANIC">>

Builtin(name, args) ==
  LET n == Len(args) IN
  CASE name = "len" ->
         IF n # 1 THEN N
         ELSE IF IsArr(args[1]) \/ IsHash(args[1]) THEN I(Len(args[1][2]))
         ELSE IF IsStr(args[1]) THEN I(Len(args[1][2]))
         ELSE LET p == Inspect(args[1]) IN IF p = NoPrint THEN SKIP ELSE I(Len(p))
    [] name = "string" ->
         IF n # 1 THEN N
         ELSE LET p == Inspect(args[1]) IN IF p = NoPrint THEN SKIP ELSE S(p)
    [] name = "type" ->
         IF n # 1 THEN N
         ELSE CASE IsInt(args[1]) -> S(<<105,110,116,101,103,101,114>>)
                [] IsFlt(args[1]) \/ Tag(args[1]) = "Q" -> S(<<102,108,111,97,116>>)
                [] IsStr(args[1]) -> S(<<115,116,114,105,110,103>>)
                [] IsBool(args[1]) -> S(<<98,111,111,108,101,97,110>>)
                [] IsNull(args[1]) -> S(<<110,117,108,108>>)
                [] IsArr(args[1]) -> S(<<97,114,114,97,121>>)
                [] IsHash(args[1]) -> S(<<104,97,115,104>>)
                [] IsRe(args[1]) -> S(<<114,101,103,101,120,112>>)
                [] OTHER -> SKIP
    [] name = "int" ->
         IF n # 1 THEN N
         ELSE IF IsInt(args[1]) THEN args[1]
         ELSE IF IsStr(args[1]) THEN ParseIntCps(args[1][2])
         ELSE IF IsFlt(args[1]) THEN (IF args[1][3] = 1 THEN SKIP ELSE SKIP)   \* float -> int: truncation or null? silent
         ELSE IF IsBool(args[1]) \/ IsNull(args[1]) \/ IsArr(args[1]) \/ IsHash(args[1]) THEN N
         ELSE SKIP
    [] name = "float" ->
         IF n # 1 THEN N
         ELSE IF IsFlt(args[1]) THEN args[1]
         ELSE IF IsInt(args[1]) THEN <<"F", args[1][2], 1>>
         ELSE IF IsStr(args[1]) THEN
                (LET p == ParseIntCps(args[1][2]) IN
                 IF IsInt(p) THEN <<"F", p[2], 1>> ELSE SKIP)      \* decimal spellings: checked on the Go side
         ELSE IF IsBool(args[1]) \/ IsNull(args[1]) \/ IsArr(args[1]) \/ IsHash(args[1]) THEN N
         ELSE SKIP
    [] name = "lower" ->
         IF n # 1 THEN N
         ELSE LET p == Inspect(args[1]) IN
              IF p = NoPrint \/ ~Ascii(p) THEN SKIP ELSE S([k \in 1..Len(p) |-> LowerC(p[k])])
    [] name = "upper" ->
         IF n # 1 THEN N
         ELSE LET p == Inspect(args[1]) IN
              IF p = NoPrint \/ ~Ascii(p) THEN SKIP ELSE S([k \in 1..Len(p) |-> UpperC(p[k])])
    [] name = "trim" ->
         IF n # 1 THEN N
         ELSE LET p == Inspect(args[1]) IN
              IF p = NoPrint \/ ~Ascii(p) THEN SKIP ELSE S(TrimRight(TrimLeft(p)))
    [] name = "min" ->
         IF n # 2 THEN N
         ELSE IF NumArg(args[1]) /\ NumArg(args[2]) THEN
                (IF ~NumCmpOK(args[1], args[2]) THEN SKIP
                 ELSE IF NumEq(args[1], args[2]) THEN (IF Tag(args[1]) = Tag(args[2]) THEN args[1] ELSE SKIP)
                 ELSE IF NumLess(args[1], args[2]) THEN args[1] ELSE args[2])
         ELSE SKIP
    [] name = "max" ->
         IF n # 2 THEN N
         ELSE IF NumArg(args[1]) /\ NumArg(args[2]) THEN
                (IF ~NumCmpOK(args[1], args[2]) THEN SKIP
                 ELSE IF NumEq(args[1], args[2]) THEN (IF Tag(args[1]) = Tag(args[2]) THEN args[1] ELSE SKIP)
                 ELSE IF NumLess(args[1], args[2]) THEN args[2] ELSE args[1])
         ELSE SKIP
    [] name = "between" ->
         IF n # 3 THEN N
         ELSE IF NumArg(args[1]) /\ NumArg(args[2]) /\ NumArg(args[3]) THEN
                (IF ~(NumCmpOK(args[1], args[2]) /\ NumCmpOK(args[1], args[3])) THEN SKIP
                 ELSE B(~NumLess(args[1], args[2]) /\ ~NumLess(args[3], args[1])))
         ELSE N
    [] name = "keys" ->
         IF n # 1 \/ ~IsHash(args[1]) THEN N
         ELSE IF HashOrderDefined(args[1][2]) THEN A(HashSorted(args[1][2])) ELSE SKIP
    [] name = "join" ->
         IF n # 2 \/ ~IsArr(args[1]) \/ ~IsStr(args[2]) THEN N
         ELSE LET p == JoinWith(args[1][2], args[2][2], 1) IN IF p = NoPrint THEN SKIP ELSE S(p)
    [] name = "split" ->
         IF n # 2 \/ ~IsStr(args[1]) \/ ~IsStr(args[2]) THEN N
         ELSE IF Len(args[2][2]) = 0 THEN A([k \in 1..Len(args[1][2]) |-> S(<<args[1][2][k]>>)])
         ELSE A(SplitBy(args[1][2], args[2][2], <<>>))
    [] name \in {"sort", "reverse"} ->
         IF (n # 1 /\ n # 2) \/ ~IsArr(args[1]) \/ (n = 2 /\ ~IsBool(args[2])) THEN N
         ELSE LET ci == (n = 2 /\ args[2][2]) IN
              IF ~AllPrintable(args[1][2]) \/ ~NoKeyTies(args[1][2], ci) \/ (ci /\ \E k \in 1..Len(args[1][2]) : ~Ascii(Inspect(args[1][2][k]))) THEN SKIP
              ELSE A(SortBy(args[1][2], ci, name = "reverse"))
    [] name = "match" ->
         IF n # 2 THEN B(FALSE)
         ELSE IF IsStr(args[1]) /\ IsRe(args[2]) THEN Match(args[1][2], args[2])
         ELSE SKIP
    [] name \in {"print", "printf"} -> V
    [] name = "panic" -> PANIC
    [] OTHER -> SKIP      \* getenv now time sprintf replace and the time fields: checked elsewhere

(***************************************************************************)
(* Laws (C17), checked by TLC over the enumerated arguments.               *)
(***************************************************************************)
LawJoinSplit(s, d) ==
  (IsStr(s) /\ IsStr(d) /\ Len(d[2]) > 0) =>
     Builtin("join", <<Builtin("split", <<s, d>>), d>>) = s

LawMinMax(a, b) ==
  (IsNum(a) /\ IsNum(b) /\ NumCmpOK(a, b) /\ ~NumEq(a, b)) =>
     LET lo == Builtin("min", <<a, b>>) hi == Builtin("max", <<a, b>>) IN
     /\ {lo, hi} = {a, b}
     /\ Bin("<", lo, hi) = B(TRUE)

LawBetween(x, lo, hi) ==
  (IsNum(x) /\ IsNum(lo) /\ IsNum(hi) /\ NumCmpOK(x, lo) /\ NumCmpOK(x, hi)) =>
     Builtin("between", <<x, lo, hi>>) = B(Bin("<=", lo, x)[2] /\ Bin("<=", x, hi)[2])

\* sort returns an ordered permutation
IsPerm(a, b) == Len(a) = Len(b) /\ \A k \in 1..Len(a) :
                   Cardinality({j \in 1..Len(a) : a[j] = a[k]}) = Cardinality({j \in 1..Len(b) : b[j] = a[k]})
LawSort(arr) ==
  IsArr(arr) => LET r == Builtin("sort", <<arr>>) IN
     Defined(r) => /\ IsPerm(arr[2], r[2])
                   /\ \A k \in 1..(Len(r[2]) - 1) : ~SeqLess(Inspect(r[2][k + 1]), Inspect(r[2][k]))
=============================================================================
