------------------------------ MODULE MC_Flow ------------------------------
(***************************************************************************)
(* C02: control flow.  Programs are compositions - nested and sequential,  *)
(* two and three deep - of the instrumented constructs of EFSyntax; every  *)
(* truth assignment to the condition fields they read is one run, and the  *)
(* runs of one program are made in sequence on one evaluator (variables    *)
(* persist), so the expectation of run i is computed from the variables    *)
(* run i-1 left.  The reference semantics gives, per run, the result, the  *)
(* sequence of t(n) calls and the variables left.                          *)
(***************************************************************************)
EXTENDS EFSyntax, Json

CONSTANT Tier,
         Seed      \* >= 1: shifts which part of a sampled family is taken (1 = the default sample)

VARIABLE row
vars == <<row>>

Fuel == 80
Host == <<<<"t", <<"log">>>>>>
Inner(j) == <<T(900 + j), Bump("r")>>

Wrap(body) == <<Asg("r", LitI(0)), T(1)>> \o body \o <<T(2), Ret(Ref("r"))>>

Prog(shape, k1, k2, k3) ==
  CASE shape = "nest2"   -> Wrap(Mk(k1, 1, Mk(k2, 2, Inner(2))))
    [] shape = "seq2"    -> Wrap(Mk(k1, 1, Inner(1)) \o Mk(k2, 2, Inner(2)))
    [] shape = "nest3"   -> Wrap(Mk(k1, 1, Mk(k2, 2, Mk(k3, 3, Inner(3)))))
    [] shape = "nestseq" -> Wrap(Mk(k1, 1, Mk(k2, 2, Inner(2)) \o Mk(k3, 3, Inner(3))))

\* the condition fields a program reads, in a fixed order
Fields(ks) ==
  LET FJ(j) == (IF UsesC(ks[j]) THEN <<CName[j]>> ELSE <<>>) \o (IF UsesD(ks[j]) THEN <<DName[j]>> ELSE <<>>)
  IN IF Len(ks) = 2 THEN FJ(1) \o FJ(2) ELSE FJ(1) \o FJ(2) \o FJ(3)

\* all objects (association lists) over the given boolean fields
RECURSIVE Objs(_)
Objs(fs) == IF Len(fs) = 0 THEN <<<<>>>>
            ELSE LET rest == Objs(Tail(fs)) IN
                 [i \in 1..(2 * Len(rest)) |->
                    IF i <= Len(rest) THEN <<<<fs[1], B(TRUE)>>>> \o rest[i]
                                      ELSE <<<<fs[1], B(FALSE)>>>> \o rest[i - Len(rest)]]

\* the runs of one program on one evaluator, in order, threading the variables
RECURSIVE RunSeq(_, _, _, _)
RunSeq(prog, objs, i, g) ==
  IF i > Len(objs) THEN <<>>
  ELSE LET r == RunProgram(prog, g, objs[i], Host, Fuel) IN
       <<[obj |-> objs[i], exp |-> [out |-> r.out, calls |-> r.calls, vars |-> r.g]]>>
         \o RunSeq(prog, objs, i + 1, r.g)

Row(shape, ks) ==
  LET prog == Prog(shape, ks[1], ks[2], IF Len(ks) = 3 THEN ks[3] ELSE 1) IN
  [k |-> "flow", shape |-> shape, ks |-> ks, prog |-> prog, fns |-> Host,
   runs |-> RunSeq(prog, Objs(Fields(ks)), 1, <<>>), done |-> TRUE]

\* ---- tails: constructs whose LAST statement is a construct, with nothing after them ---------------------
\* (the script runs off its end; the join points of the outer and the inner construct coincide with the end
\* of the program)  o in 1..NTail, j the slot, LASTB the block placed last
NTail == 7
TailC(o, j, LASTB) ==
  LET n == 100 * j  c == Ref(CName[j])  d == Ref(DName[j])  w == WName[j]  x == XName[j] IN
  CASE o = 1 -> <<If(c, <<T(n + 1)>> \o LASTB)>>
    [] o = 2 -> <<IfElse(c, <<T(n + 1)>>, <<T(n + 2)>> \o LASTB)>>
    [] o = 3 -> <<IfElse(c, <<T(n + 1)>>, <<IfElse(d, <<T(n + 2)>> \o LASTB, <<T(n + 4)>>)>>)>>
    [] o = 4 -> <<Switch(LitI(2), <<Case(<<LitI(1)>>, <<T(n + 1)>>), Default(<<T(n + 2)>> \o LASTB)>>)>>
    [] o = 5 -> <<Switch(LitI(1), <<Case(<<LitI(1)>>, <<T(n + 1)>> \o LASTB), Default(<<T(n + 2)>>)>>)>>
    [] o = 6 -> <<Asg(w, c), While(Ref(w), <<Asg(w, LitB(FALSE)), T(n + 1)>> \o LASTB)>>
    [] o = 7 -> <<ForEach("", x, ArrLit(<<7>>), <<TE(Ref(x))>> \o LASTB)>>
TailFields(o, j) == CASE o \in {1, 2, 6} -> <<CName[j]>> [] o = 3 -> <<CName[j], DName[j]>> [] OTHER -> <<>>
TailProg(o1, o2, leaf) == <<T(1)>> \o TailC(o1, 1, TailC(o2, 2, IF leaf THEN <<T(9)>> ELSE <<>>))
TailRow(o1, o2, leaf) ==
  LET prog == TailProg(o1, o2, leaf) IN
  [k |-> "flow", shape |-> "tail", ks |-> <<o1, o2>>, prog |-> prog, fns |-> Host,
   runs |-> RunSeq(prog, Objs(TailFields(o1, 1) \o TailFields(o2, 2)), 1, <<>>), done |-> TRUE]

\* ---- the value of a switch is ONE value -------------------------------------------------------------
\* nx() is a host function which returns 1, 2, 3 ... on successive calls of a run: a switch over it has the
\* value of its first call, whatever the cases are; later calls see the count go on from there
HostNx == <<<<"t", <<"log">>>>, <<"nx", <<"count">>>>>>
Nx == CallE("nx", <<>>)
SwitchValProg(v) ==
  CASE v = 1 -> <<Switch(Nx, <<Case(<<LitI(5)>>, <<T(1)>>), Case(<<LitI(2)>>, <<T(2)>>), Case(<<LitI(3)>>, <<T(3)>>), Default(<<T(9)>>)>>), Ret(Nx)>>
    [] v = 2 -> <<Switch(Nx, <<Case(<<LitI(7), LitI(8), LitI(1)>>, <<T(1)>>), Default(<<T(9)>>)>>), Ret(Nx)>>
    [] v = 3 -> <<ForEach("", "x", ArrLit(<<1, 2>>), <<Switch(Nx, <<Case(<<LitI(3)>>, <<T(3)>>), Case(<<LitI(2)>>, <<T(2)>>), Case(<<LitI(1)>>, <<T(1)>>)>>)>>), Ret(Nx)>>
    [] v = 4 -> <<Switch(Nx, <<Case(<<LitI(1)>>, <<T(1)>>), Case(<<LitI(2)>>, <<T(2)>>)>>), Switch(Nx, <<Case(<<LitI(1)>>, <<T(11)>>), Case(<<LitI(3)>>, <<T(13)>>), Case(<<LitI(2)>>, <<T(12)>>)>>), Ret(Nx)>>
    [] v = 5 -> <<Switch(BinE("+", Nx, LitI(1)), <<Case(<<LitI(9)>>, <<T(9)>>), Case(<<LitI(3)>>, <<T(3)>>), Default(<<T(0)>>)>>), Ret(Nx)>>
SwitchValRow(v) ==
  LET prog == SwitchValProg(v)
      r1 == RunProgram(prog, <<>>, <<>>, HostNx, Fuel)
      r2 == RunProgram(prog, r1.g, <<>>, HostNx, Fuel) IN
  [k |-> "flow", shape |-> "switchval", ks |-> <<v>>, prog |-> prog, fns |-> HostNx,
   runs |-> <<[obj |-> <<>>, exp |-> [out |-> r1.out, calls |-> r1.calls, vars |-> r1.g]],
              [obj |-> <<>>, exp |-> [out |-> r2.out, calls |-> r2.calls, vars |-> r2.g]]>>, done |-> TRUE]

\* ---- a regexp case and a value which is not a string ---------------------------------------------------
\* The statement says a case "matches by regexp" and not what that means for a number or a boolean: "print"
\* tests the printed form, "none" lets no regexp case match.  Each row carries the runs under both; an
\* implementation must follow one of them - everywhere - and may never abort the run there.
ReCaseVals == << I(200), I(404), I(503), I(301), F(9, 2), S(<<52, 48, 52>>), B(TRUE), N, I(-4), S(<<>>) >>
ReCaseProg(v) ==
  LET re(cps) == <<"lit", R(cps, "")>> IN
  CASE v = 1 -> <<Switch(Ref("V"), <<Case(<<LitI(200)>>, <<T(1)>>), Case(<<re(<<94, 52>>)>>, <<T(2)>>), Case(<<re(<<94, 53>>)>>, <<T(3)>>), Default(<<T(9)>>)>>), Ret(Ref("V"))>>
    [] v = 2 -> <<Switch(Ref("V"), <<Case(<<re(<<52, 36>>), LitI(301)>>, <<T(2)>>), Case(<<re(<<116, 114, 117>>)>>, <<T(3)>>)>>), T(4), Ret(LitI(0))>>
    [] v = 3 -> <<ForEach("", "x", <<"arr", <<Ref("V"), LitS(<<52, 48, 52>>), LitI(404)>>>>, <<Switch(Ref("x"), <<Default(<<T(9)>>), Case(<<re(<<94, 52, 48>>)>>, <<T(2)>>)>>)>>), Ret(LitI(0))>>
ReCaseRuns(prog, mode) ==
  [i \in 1..Len(ReCaseVals) |->
     LET r == RunProgramM(prog, <<>>, <<<<"V", ReCaseVals[i]>>>>, Host, Fuel, mode) IN
     [obj |-> <<<<"V", ReCaseVals[i]>>>>, exp |-> [out |-> r.out, calls |-> r.calls]]]
ReCaseRow(v) ==
  LET prog == ReCaseProg(v) IN
  [k |-> "recase", shape |-> "recase", ks |-> <<v>>, prog |-> prog, fns |-> Host,
   runs |-> ReCaseRuns(prog, "print"), runsnone |-> ReCaseRuns(prog, "none"), done |-> TRUE]

Init == \/ row = [k |-> "sv0", shape |-> "switchval", done |-> FALSE]
        \/ row = [k |-> "rc0", shape |-> "recase", done |-> FALSE]
        \/ \E sh \in {"nest2", "seq2", "nest3", "nestseq"}, k1 \in 1..NKinds :
             row = [k |-> "flow0", shape |-> sh, k1 |-> k1, done |-> FALSE]
        \/ \E o1 \in 1..NTail : row = [k |-> "tail0", shape |-> "tail", o1 |-> o1, done |-> FALSE]

Next ==
  /\ ~row.done
  /\ \/ /\ row.shape = "recase"
        /\ \E v \in 1..3 : row' = ReCaseRow(v)
     \/ /\ row.shape = "switchval"
        /\ \E v \in 1..5 : row' = SwitchValRow(v)
     \/ /\ row.shape = "tail"
        /\ \E o2 \in 1..NTail, leaf \in BOOLEAN : row' = TailRow(row.o1, o2, leaf)
     \/ /\ row.shape \in {"nest2", "seq2"}
        /\ \E k2 \in 1..NKinds : row' = Row(row.shape, <<row.k1, k2>>)
     \/ /\ row.shape \in {"nest3", "nestseq"}
        /\ \E k2 \in 1..NKinds, k3 \in 1..NKinds :
             /\ (Tier = "thorough" \/ (row.k1 + 3 * k2 + 5 * k3 + Seed - 1) % 11 = 0)
             /\ row' = Row(row.shape, <<row.k1, k2, k3>>)

Spec == Init /\ [][Next]_vars

\* ---- checked on the model ----------------------------------------------
\* the corpus is fully constrained: the reference semantics never answers SKIP, DIVERGE or
\* ERR here (a guard against a vacuous oracle)
Specified == row.done => \A i \in 1..Len(row.runs) :
                ~IsSkip(row.runs[i].exp.out) /\ ~IsErr(row.runs[i].exp.out) /\ Tag(row.runs[i].exp.out) # "DIVERGE"

Bounded == row.done => \A i \in 1..Len(row.runs) : Len(row.runs[i].exp.calls) <= 400

Export == row.done => PrintT(<<"ROW", ToJson(row)>>)
=============================================================================
