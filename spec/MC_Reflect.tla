----------------------------- MODULE MC_Reflect -----------------------------
(***************************************************************************)
(* C04: scripts see the host object's fields faithfully.                   *)
(* Host values are pairs <<kind, value>>: kind names a Go type, value is   *)
(* the script value it must convert to.  The conversion contract:          *)
(*   int int64 float32 float64 string bool time.Time and slices of those,  *)
(*   []interface{} holding those, and string-keyed maps (nested) convert   *)
(*   exactly (time as Unix seconds, slices in order and length);           *)
(*   the narrow integer kinds may convert exactly, or be null or an error; *)
(*   kinds the engine cannot represent give null or an error.              *)
(* Objects are structs with 1-3 exported fields (built by the harness with *)
(* reflect.StructOf, passed by value or by pointer) or string-keyed maps;  *)
(* lookup order is variable, then field, then null; each run sees the      *)
(* object of that run - a different object, or the same pointer / map      *)
(* changed in place - never an earlier one.                                *)
(***************************************************************************)
EXTENDS EFCorpus, Json

CONSTANT Tier,
         Seed      \* >= 1: shifts which part of a sampled family is taken (1 = the default sample)

VARIABLE row
vars == <<row>>

Fuel == 20
ANYOF(vs) == <<"ANYOF", vs>>

\* "abc" "é" ""
Sa == S(<<97, 98, 99>>)  Se == S(<<233>>)  S0 == S(<<>>)

\* a document nested d levels deep: {"n": {"n": ... {"x": true}}}
RECURSIVE DeepMap(_)
DeepMap(d) == IF d = 0 THEN H(<<<<S(<<120>>), B(TRUE)>>>>) ELSE H(<<<<S(<<110>>), DeepMap(d - 1)>>>>)

Exact == <<
  <<"int", I(0)>>, <<"int", I(-5)>>, <<"int", I(70000)>>, <<"int64", I(65535)>>, <<"int64", I(-1)>>,
  <<"float64", F(3, 2)>>, <<"float64", F(0, 1)>>, <<"float64", F(-5, 2)>>, <<"float32", F(1, 4)>>, <<"float32", F(7, 1)>>,
  <<"string", Sa>>, <<"string", S0>>, <<"string", Se>>,
  <<"bool", B(TRUE)>>, <<"bool", B(FALSE)>>,
  <<"time", I(0)>>, <<"time", I(86400)>>, <<"time", I(1700000000)>>,
  <<"[]string", A(<<Sa, S0, Se>>)>>, <<"[]string", A(<<>>)>>, <<"nil[]string", A(<<>>)>>,
  <<"[]int", A(<<I(3), I(1), I(2)>>)>>, <<"[]int64", A(<<I(70000)>>)>>, <<"[]int32", A(<<I(5), I(6)>>)>>,
  <<"[]float64", A(<<F(1, 2), F(2, 1)>>)>>, <<"[]float32", A(<<F(1, 4)>>)>>, <<"[]bool", A(<<B(TRUE), B(FALSE)>>)>>,
  <<"[]time", A(<<I(86400), I(0)>>)>>,
  <<"[]interface", A(<<I(1), Sa, B(TRUE), F(3, 2)>>)>>,
  <<"map", H(<<<<S(<<107>>), I(1)>>, <<S(<<97>>), Sa>>>>)>>, <<"map", H(<<>>)>>,
  <<"map", H(<<<<S(<<110>>), H(<<<<S(<<120>>), B(TRUE)>>>>)>>>>)>>,
  <<"map", DeepMap(9)>>, <<"map", DeepMap(14)>>, <<"map", DeepMap(40)>>
>>
NE == Len(Exact)

Narrow == << <<"int8", I(7)>>, <<"int16", I(-7)>>, <<"int32", I(70000)>>, <<"uint", I(7)>>, <<"uint8", I(200)>>, <<"uint16", I(7)>>, <<"uint32", I(7)>>, <<"uint64", I(7)>> >>
Unsupported == << <<"chan", N>>, <<"func", N>>, <<"ptr", I(5)>>, <<"nilptr", N>>, <<"struct", N>>, <<"complex", N>>, <<"array", A(<<I(1)>>)>>,
                  <<"[]ptr", A(<<>>)>>, <<"map[int]", N>>, <<"map[string]int", N>>, <<"iface-nil", N>>, <<"[]interface-nil", A(<<I(1), N>>)>> >>

\* what a field holding host value h must yield
Convert(class, h) ==
  CASE class = "exact" -> h[2]
    [] class = "narrow" -> ANYOF(<<h[2], N, ERR>>)
    [] class = "unsupported" -> IF h[1] \in {"[]interface-nil", "array", "[]ptr", "map[int]"} THEN SKIP ELSE ANYOF(<<N, ERR>>)

HostAt(class, i) == CASE class = "exact" -> Exact[i] [] class = "narrow" -> Narrow[i] [] class = "unsupported" -> Unsupported[i]
Count(class) == CASE class = "exact" -> NE [] class = "narrow" -> Len(Narrow) [] class = "unsupported" -> Len(Unsupported)

FName == <<"Alpha", "Beta", "Gamma">>

\* probes of field f
Probes == <<"value", "type", "twice">>
ProbeProg(p, f) ==
  CASE p = "value" -> <<Ret(Ref(f))>>
    [] p = "type" -> <<Ret(CallE("type", <<Ref(f)>>))>>
    [] p = "twice" -> <<Asg("r", Ref(f)), Ret(<<"arr", <<Ref(f), Ref("r")>>>>)>>

ProbeExp(p, x) ==
  IF Tag(x) = "ANYOF" \/ IsSkip(x) THEN (IF p = "value" THEN x ELSE SKIP)
  ELSE CASE p = "value" -> x
         [] p = "type" -> Builtin("type", <<x>>)
         [] p = "twice" -> A(<<x, x>>)

\* a row: an object description (per run), a script, the runs
\* objs: sequence of [kind |-> "struct" | "ptr" | "map", fields |-> <<<<name, hostkind, value>>...>>]
\* runs: sequence of [o |-> index into objs, same |-> reuse the container of the previous run, exp]
MkRow(kind, objs, prog, g0, runs) ==
  [k |-> kind, objs |-> objs, prog |-> prog, vars |-> g0, fns |-> <<>>, runs |-> runs, done |-> TRUE]

Field(n, h) == <<n, h[1], h[2]>>
Obj(okind, fs) == [kind |-> okind, fields |-> fs]

OKinds == <<"struct", "ptr", "map">>
MapOK(h) == h[1] \in {"int", "int64", "float64", "string", "bool", "time", "[]interface", "map", "[]string", "[]int", "[]float64", "[]bool",
                     "chan", "func", "ptr", "nilptr", "struct", "complex", "iface-nil", "int8", "int32", "uint", "uint8", "uint64"}

Init ==
  \/ \E cl \in {"exact", "narrow", "unsupported"}, ok \in 1..3 : row = [k |-> "one0", class |-> cl, okind |-> OKinds[ok], done |-> FALSE]
  \/ \E i \in 1..NE, ok \in 1..3 : row = [k |-> "two0", i |-> i, okind |-> OKinds[ok], done |-> FALSE]
  \/ \E i \in 1..NE : row = [k |-> "hist0", i |-> i, done |-> FALSE]
  \/ \E i \in 1..NE : row = [k |-> "prec0", i |-> i, done |-> FALSE]

Next ==
  /\ ~row.done
  /\ \/ \* one field of every kind, every probe, run twice
        /\ row.k = "one0"
        /\ \E i \in 1..Count(row.class), p \in 1..Len(Probes) :
             LET h == HostAt(row.class, i)
                 x == Convert(row.class, h)
                 e == ProbeExp(Probes[p], x) IN
             /\ (row.okind = "map" => MapOK(h))
             /\ row' = MkRow("field", <<Obj(row.okind, <<Field("Alpha", h)>>)>>, ProbeProg(Probes[p], "Alpha"), <<>>,
                             <<[o |-> 1, same |-> FALSE, exp |-> [out |-> e]], [o |-> 1, same |-> TRUE, exp |-> [out |-> e]]>>)
     \/ \* two and three fields in every order: each field still yields its own value
        /\ row.k = "two0"
        /\ \E j \in 1..NE, third \in 0..NE, pick \in 1..3 :
             LET h1 == Exact[row.i]  h2 == Exact[j]
                 fs == IF third = 0 THEN <<Field("Alpha", h1), Field("Beta", h2)>>
                                    ELSE <<Field("Alpha", h1), Field("Beta", h2), Field("Gamma", Exact[third])>>
                 want == IF pick = 1 THEN h1[2] ELSE IF pick = 2 THEN h2[2] ELSE Exact[IF third = 0 THEN 1 ELSE third][2] IN
             /\ (third = 0 => pick < 3)
             /\ (third # 0 => (Tier = "thorough" \/ (row.i + 2 * j + 3 * third + Seed - 1) % 37 = 0))
             /\ (row.okind = "map" => MapOK(h1) /\ MapOK(h2) /\ (third = 0 \/ MapOK(Exact[IF third = 0 THEN 1 ELSE third])))
             /\ row' = MkRow("fields", <<Obj(row.okind, fs)>>, <<Ret(Ref(FName[pick]))>>, <<>>,
                             <<[o |-> 1, same |-> FALSE, exp |-> [out |-> want]]>>)
     \/ \* each run sees the object of that run: o1, o2, o1; and the same container changed in place
        /\ row.k = "hist0"
        /\ \E j \in 1..NE, ok \in 1..3, inplace \in BOOLEAN :
             LET h1 == Exact[row.i]  h2 == Exact[j] IN
             /\ h1[1] = h2[1] /\ h1 # h2                         \* same Go type, another value
             /\ (OKinds[ok] = "map" => MapOK(h1))
             /\ (inplace => OKinds[ok] # "struct")               \* a struct passed by value cannot be changed in place
             /\ row' = MkRow("history", <<Obj(OKinds[ok], <<Field("Alpha", h1), Field("Beta", Exact[1])>>),
                                          Obj(OKinds[ok], <<Field("Alpha", h2), Field("Beta", Exact[1])>>)>>,
                             <<Ret(<<"arr", <<Ref("Alpha"), Ref("Beta")>>>>)>>, <<>>,
                             <<[o |-> 1, same |-> FALSE, exp |-> [out |-> A(<<h1[2], Exact[1][2]>>)]],
                               [o |-> 2, same |-> inplace, exp |-> [out |-> A(<<h2[2], Exact[1][2]>>)]],
                               [o |-> 1, same |-> inplace, exp |-> [out |-> A(<<h1[2], Exact[1][2]>>)]]>>)
     \/ \* a variable of the same name wins; a name that is neither is null; the variable wins after
        \* other fields have been read, too
        /\ row.k = "prec0"
        /\ \E ok \in 1..3, v \in {0, 1, 11, 14}, shape \in 1..3 :          \* v = 0: the variable holds null
             LET h == Exact[row.i]  w == IF v = 0 THEN N ELSE Exact[v][2]
                 prog == CASE shape = 1 -> <<Ret(<<"arr", <<Ref("Alpha"), Ref("Beta"), Ref("Missing")>>>>)>>
                           [] shape = 2 -> <<Asg("t0", Ref("Beta")), Ret(<<"arr", <<Ref("Alpha"), Ref("Beta"), Ref("Missing")>>>>)>>
                           [] shape = 3 -> <<If(BinE("==", Ref("Beta"), <<"lit", Exact[1][2]>>), <<Asg("Alpha", <<"lit", w>>)>>),
                                             Ret(<<"arr", <<Ref("Alpha"), Ref("Beta"), Ref("Missing")>>>>)>>
                 g0 == IF shape = 3 THEN <<>> ELSE <<<<"Alpha", w>>>> IN
             /\ (OKinds[ok] = "map" => MapOK(h))
             /\ row' = MkRow("precedence", <<Obj(OKinds[ok], <<Field("Alpha", h), Field("Beta", Exact[1])>>)>>, prog, g0,
                             <<[o |-> 1, same |-> FALSE, exp |-> [out |-> A(<<w, Exact[1][2], N>>)]],
                               [o |-> 1, same |-> FALSE, exp |-> [out |-> A(<<w, Exact[1][2], N>>)]]>>)

Spec == Init /\ [][Next]_vars

\* ---- checked on the model: conversion is a function of the host value alone -------------
Total == row.done => \A i \in 1..Len(row.runs) : LET o == row.runs[i].exp.out IN IsValue(o) \/ IsSkip(o) \/ Tag(o) = "ANYOF"

Export == row.done => PrintT(<<"ROW", ToJson(row)>>)
=============================================================================
