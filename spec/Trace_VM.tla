------------------------------ MODULE Trace_VM ------------------------------
(***************************************************************************)
(* The control skeleton of the virtual machine - frames, instruction       *)
(* pointer, operand-stack height, active foreach loops, the cancellation   *)
(* flag polled before every instruction - and the validation of executions *)
(* RECORDED FROM THE REAL VM (one event per dispatched instruction, through*)
(* the verif step hook) against it.                                        *)
(*                                                                         *)
(* Inputs: progs.ndjson (the prepared programs, as in MC_Verify) and       *)
(* trace.ndjson, a concatenation of runs:                                  *)
(*   [e |-> "run", p |-> id]            a run of program id starts         *)
(*   [e |-> "step", fd, body, ip, op, arg, sd]                             *)
(*        the instruction about to be dispatched: frame depth (user        *)
(*        function calls in progress), body name, offset, opcode, operand, *)
(*        operand-stack height of the current frame                        *)
(*   [e |-> "cancel"]                   the context was cancelled (the     *)
(*                                      harness does it from the hook, so  *)
(*                                      the position is exact)             *)
(*   [e |-> "end", ok]                  the run returned (ok = no error)   *)
(* Each step also carries tos, the value on top of the frame's stack before  *)
(* the instruction (integers, strings, booleans, null, small arrays of     *)
(* those; <<"U">> = not logged), and the programs carry their constants    *)
(* (cvals).  The specification keeps an abstract value stack per frame:    *)
(* wherever the operands of an instruction are known, the value the real   *)
(* machine produced must be the one EFValues defines (Bin / Un / Truthy),  *)
(* a conditional jump must go the way the truth of its operand says, and   *)
(* an operation EFValues defines to fail must end the run with an error.   *)
(* Every step must be a step the machine allows from the state reached by  *)
(* the steps before it; after a cancellation no further instruction may be *)
(* dispatched and the run must end with an error (C09); when a run has     *)
(* ended every frame is gone (C07).                                        *)
(***************************************************************************)
EXTENDS EFValues, EFBytecode, Json

Progs == ndJsonDeserialize("progs.ndjson")
Trace == ndJsonDeserialize("trace.ndjson")
NT == Len(Trace)

ProgIndex(id) == CHOOSE i \in 1..Len(Progs) : Progs[i].id = id
BodyOf(pi, name) == LET bs == Progs[pi].bodies IN bs[CHOOSE i \in 1..Len(bs) : bs[i].name = name]
HasBody(pi, name) == \E i \in 1..Len(Progs[pi].bodies) : Progs[pi].bodies[i].name = name

VARIABLES l,        \* next trace line
          pi,       \* index of the program being run (0: idle)
          frames,   \* sequence of [body, ip, op, arg, sd, bases]: the last instruction dispatched in each frame
          started,  \* has the current run dispatched anything yet?
          cancelled, after
vars == <<l, pi, frames, started, cancelled, after>>

Init == l = 1 /\ pi = 0 /\ frames = <<>> /\ started = FALSE /\ cancelled = FALSE /\ after = 0

Ev == Trace[l]

\* ---- the value level ------------------------------------------------------------------
U == <<"U">>                         \* a value the trace does not tell / the model does not follow
Known(v) == v[1] # "U"
\* values the model follows exactly: no floats (rounding), no hashes, no regexps
RECURSIVE Followed(_)
Followed(v) == CASE v[1] \in {"I", "S", "B", "N"} -> TRUE
                 [] v[1] = "A" -> Len(v[2]) <= 6 /\ \A i \in 1..Len(v[2]) : Followed(v[2][i])
                 [] OTHER -> FALSE
Abs1(v) == IF Followed(v) THEN v ELSE U

OpName(op) ==
  CASE op = OpAdd -> "+" [] op = OpSub -> "-" [] op = OpMul -> "*" [] op = OpDiv -> "/" [] op = OpMod -> "%" [] op = OpPower -> "**"
    [] op = OpLess -> "<" [] op = OpLessEqual -> "<=" [] op = OpGreater -> ">" [] op = OpGreaterEqual -> ">="
    [] op = OpEqual -> "==" [] op = OpNotEqual -> "!=" [] op = OpAnd -> "&&" [] op = OpOr -> "||"
    [] op = OpArrayIn -> "in" [] op = OpIndex -> "[]" [] op = OpRange -> ".."
    [] OTHER -> "none"

Drop(vs, n) == IF n >= Len(vs) THEN <<>> ELSE SubSeq(vs, 1, Len(vs) - n)
TopV(vs, k) == IF Len(vs) > k THEN vs[Len(vs) - k] ELSE U          \* k = 0: the top

\* What the instruction f (dispatched with value stack f.vs) computes: <<"push", v>> (v may be U),
\* <<"fail">> (EFValues says the operation ends the run with an error), or <<"none">> (no value pushed)
Computes(f) ==
  LET vs == f.vs  op == f.op  a == f.arg  cv == Progs[pi].cvals IN
  CASE op = OpPush -> <<"push", I(a)>>
    [] op = OpConstant -> <<"push", IF a < Len(cv) THEN Abs1(cv[a + 1]) ELSE U>>
    [] op = OpTrue -> <<"push", B(TRUE)>>
    [] op = OpFalse -> <<"push", B(FALSE)>>
    [] op \in {OpLookup, OpVoid, OpHash, OpCase, OpMatches, OpNotMatches, OpIterationReset} -> <<"push", U>>
    [] OpName(op) # "none" ->
         LET lft == TopV(vs, 1)  rgt == TopV(vs, 0) IN
         IF Known(lft) /\ Known(rgt)
         THEN (LET r == Bin(OpName(op), lft, rgt) IN
               IF IsErr(r) THEN <<"fail">> ELSE IF IsSkip(r) THEN <<"push", U>> ELSE <<"push", Abs1(r)>>)
         ELSE <<"push", U>>
    [] op = OpBang -> IF Known(TopV(vs, 0)) THEN <<"push", Un("!", TopV(vs, 0))>> ELSE <<"push", U>>
    [] op = OpMinus -> IF Known(TopV(vs, 0))
                       THEN (LET r == Un("-", TopV(vs, 0)) IN IF IsErr(r) THEN <<"fail">> ELSE IF IsSkip(r) THEN <<"push", U>> ELSE <<"push", Abs1(r)>>)
                       ELSE <<"push", U>>
    [] op = OpSquareRoot -> IF Known(TopV(vs, 0)) /\ IsErr(Un("sqrt", TopV(vs, 0))) THEN <<"fail">> ELSE <<"push", U>>
    [] op = OpArray -> IF a <= 6 /\ a <= Len(vs) /\ \A i \in 1..a : Known(vs[Len(vs) - a + i])
                       THEN <<"push", A(SubSeq(vs, Len(vs) - a + 1, Len(vs)))>> ELSE <<"push", U>>
    [] OTHER -> <<"none">>

\* how many values the instruction takes off the stack (calls: arguments and the name)
Pops(f) ==
  CASE f.op \in BinaryOps -> 2
    [] f.op \in UnaryOps \/ f.op \in {OpLocal, OpInc, OpDec, OpJumpIfFalse, OpIterationReset, OpReturn} -> 1
    [] f.op = OpSet -> 2
    [] f.op \in {OpArray, OpHash} -> f.arg
    [] f.op = OpCall -> f.arg + 1
    [] OTHER -> 0

\* the value stack before the next instruction of the frame, which sees height sd2 and top tos2:
\* [ok, vs]; ok = FALSE when the logged value contradicts what EFValues defines
AfterValues(f, sd2, tos2) ==
  LET c == Computes(f)
      rest == Drop(f.vs, Pops(f)) IN
  IF f.op = OpIterationNext THEN
       \* the object stays (or goes) and true / false is pushed
       (LET base == IF Len(f.bases) > 0 THEN f.bases[Len(f.bases)] ELSE f.sd - 2
            keep == Drop(f.vs, Len(f.vs) - (base - 1)) IN
        IF sd2 = base + 1 THEN [ok |-> (~Known(tos2) \/ tos2 = B(TRUE)), vs |-> keep \o <<U, B(TRUE)>>]
                          ELSE [ok |-> (~Known(tos2) \/ tos2 = B(FALSE)), vs |-> keep \o <<B(FALSE)>>])
  ELSE IF c[1] = "fail" THEN [ok |-> FALSE, vs |-> rest]           \* the run had to end here
  ELSE IF f.op = OpCall THEN
       (IF sd2 = Len(rest) + 1 THEN [ok |-> TRUE, vs |-> Append(rest, Abs1(tos2))] ELSE [ok |-> TRUE, vs |-> rest])
  ELSE IF c[1] = "none" THEN [ok |-> TRUE, vs |-> rest]
  ELSE LET want == c[2] IN
       IF Known(want) THEN [ok |-> (~Known(tos2) \/ Abs1(tos2) = want \/ ~Followed(tos2)), vs |-> Append(rest, want)]
       ELSE [ok |-> TRUE, vs |-> Append(rest, Abs1(tos2))]

\* a conditional jump goes the way the truth of its operand says
BranchOK(f, ip2) ==
  (f.op = OpJumpIfFalse /\ Known(TopV(f.vs, 0))) =>
     ip2 = (IF Truthy(TopV(f.vs, 0)) THEN f.ip + 3 ELSE f.arg)

\* operand-stack heights allowed before the next instruction of the same frame, given the
\* instruction f just dispatched in it; "bases" are the heights recorded by active foreach loops
NextHeights(f) ==
  LET op == f.op  sd == f.sd  a == f.arg IN
  CASE op \in {OpNop, OpPlaceholder, OpJump} -> {sd}
    [] op \in {OpConstant, OpLookup, OpPush, OpTrue, OpFalse, OpVoid} -> {sd + 1}
    [] op \in BinaryOps -> {sd - 1}
    [] op \in UnaryOps -> {sd}
    [] op = OpSet -> {sd - 2}
    [] op \in {OpLocal, OpInc, OpDec, OpJumpIfFalse} -> {sd - 1}
    [] op \in {OpArray, OpHash} -> {sd - a + 1}
    [] op = OpCall -> {sd - a - 1, sd - a}                 \* a call yields one value, or none (void)
    [] op = OpIterationReset -> {sd}
    [] op = OpIterationNext ->
         LET base == IF Len(f.bases) > 0 THEN f.bases[Len(f.bases)] ELSE sd - 2 IN {base + 1, base}
    [] OTHER -> {}

\* instruction offsets allowed next in the same frame
NextIps(f) ==
  LET nxt == f.ip + OpLen(f.op) IN
  CASE f.op = OpJump -> {f.arg}
    [] f.op = OpJumpIfFalse -> {f.arg, nxt}
    [] f.op = OpReturn -> {}
    [] OTHER -> {nxt}

\* loop bases after the instruction f, when the next instruction sees height sd2
NextBases(f, sd2) ==
  CASE f.op = OpIterationReset -> Append(f.bases, f.sd)
    [] f.op = OpIterationNext ->
         LET base == IF Len(f.bases) > 0 THEN f.bases[Len(f.bases)] ELSE f.sd - 2 IN
         IF sd2 = base /\ Len(f.bases) > 0 THEN SubSeq(f.bases, 1, Len(f.bases) - 1) ELSE f.bases
    [] OTHER -> f.bases

Frame(ev, bases, vs) == [body |-> ev.body, ip |-> ev.ip, op |-> ev.op, arg |-> ev.arg, sd |-> ev.sd, bases |-> bases, vs |-> vs]

\* the recorded instruction really is the instruction at that offset of that body
Decodes(ev) ==
  /\ HasBody(pi, ev.body)
  /\ LET c == BodyOf(pi, ev.body).code IN
     /\ ev.ip >= 0 /\ ev.ip < Len(c)
     /\ ByteAt(c, ev.ip) = ev.op
     /\ ev.ip + OpLen(ev.op) <= Len(c)
     /\ ev.arg = (IF OpLen(ev.op) = 3 THEN ArgAt(c, ev.ip) ELSE 0)

StartRun ==
  /\ Ev.e = "run" /\ pi = 0
  /\ pi' = ProgIndex(Ev.p) /\ frames' = <<>> /\ started' = FALSE /\ cancelled' = FALSE /\ after' = 0

Cancel ==
  /\ Ev.e = "cancel" /\ pi # 0
  /\ cancelled' = TRUE /\ UNCHANGED <<pi, frames, started, after>>

\* the first instruction of a run: the main body at offset 0 with an empty stack
FirstStep ==
  /\ Ev.e = "step" /\ pi # 0 /\ ~started
  /\ Ev.fd = 0 /\ Ev.body = "main" /\ Ev.ip = 0 /\ Ev.sd = 0 /\ Decodes(Ev)
  /\ frames' = <<Frame(Ev, <<>>, <<>>)>> /\ started' = TRUE
  /\ after' = IF cancelled THEN after + 1 ELSE after
  /\ UNCHANGED <<pi, cancelled>>

\* the next instruction of the frame on top
SameFrame ==
  /\ Ev.e = "step" /\ started /\ Ev.fd + 1 = Len(frames)
  /\ LET f == frames[Len(frames)] IN
     /\ Ev.body = f.body /\ Decodes(Ev)
     /\ Ev.ip \in NextIps(f)
     /\ Ev.sd \in NextHeights(f)
     /\ BranchOK(f, Ev.ip)
     /\ LET r == AfterValues(f, Ev.sd, Ev.tos) IN
        /\ r.ok
        /\ Len(r.vs) = Ev.sd
        /\ frames' = [frames EXCEPT ![Len(frames)] = Frame(Ev, NextBases(f, Ev.sd), r.vs)]
  /\ after' = IF cancelled THEN after + 1 ELSE after
  /\ UNCHANGED <<pi, started, cancelled>>

\* a call of a user-defined function opens a frame: its body from offset 0, with a stack of its own
Enter ==
  /\ Ev.e = "step" /\ started /\ Ev.fd = Len(frames)
  /\ frames[Len(frames)].op = OpCall
  /\ Ev.body # "main" /\ BodyOf(pi, Ev.body).isfn
  /\ Ev.ip = 0 /\ Ev.sd = 0 /\ Decodes(Ev)
  /\ frames' = Append(frames, Frame(Ev, <<>>, <<>>))
  /\ after' = IF cancelled THEN after + 1 ELSE after
  /\ UNCHANGED <<pi, started, cancelled>>

\* a return closes the frame on top: the caller continues after its call instruction
Leave ==
  /\ Ev.e = "step" /\ started /\ Ev.fd + 2 = Len(frames)
  /\ frames[Len(frames)].op = OpReturn
  /\ LET caller == frames[Len(frames) - 1] IN
     /\ caller.op = OpCall
     /\ Ev.body = caller.body /\ Decodes(Ev)
     /\ Ev.ip = caller.ip + 3
     /\ Ev.sd \in NextHeights(caller)
     /\ LET rest == Drop(caller.vs, caller.arg + 1)
            ret == TopV(frames[Len(frames)].vs, 0)               \* what the callee returned
            vs2 == IF Ev.sd = Len(rest) + 1 THEN Append(rest, IF Known(ret) THEN ret ELSE Abs1(Ev.tos)) ELSE rest IN
        /\ Len(vs2) = Ev.sd
        \* the value the caller sees is the value the callee returned
        /\ (Ev.sd = Len(rest) + 1 /\ Known(ret) /\ Followed(Ev.tos)) => Ev.tos = ret
        /\ frames' = Append(SubSeq(frames, 1, Len(frames) - 2), Frame(Ev, caller.bases, vs2))
  /\ after' = IF cancelled THEN after + 1 ELSE after
  /\ UNCHANGED <<pi, started, cancelled>>

\* the run returns to the host.  Without an error the main frame must have reached a
\* return or its end
EndRun ==
  /\ Ev.e = "end" /\ pi # 0
  \* (a cancellation which arrives with the last instruction of the script does not fail the
  \* run: "a script that finishes before the deadline is unaffected"; PromptStop covers the rest)
  /\ (Ev.ok /\ started => Computes(frames[Len(frames)])[1] # "fail")
  /\ (Ev.ok /\ started => /\ Len(frames) = 1
                          /\ LET f == frames[1] IN
                             \/ f.op = OpReturn
                             \/ \E t \in NextIps(f) : t >= Len(BodyOf(pi, "main").code))
  /\ pi' = 0 /\ frames' = <<>> /\ started' = FALSE /\ cancelled' = FALSE /\ after' = 0

TraceNext ==
  /\ l <= NT
  /\ l' = l + 1
  /\ TLCSet(1, l')
  /\ (StartRun \/ Cancel \/ FirstStep \/ SameFrame \/ Enter \/ Leave \/ EndRun)

TraceSpec == Init /\ [][TraceNext]_vars

\* ---- properties evaluated at every step of every recorded run ---------------------
\* C09: once the context is cancelled no further instruction is dispatched
PromptStop == after = 0
\* frames nest as calls do
FramesSane == \A i \in 1..Len(frames) : (i > 1) = (frames[i].body # "main")
\* heights never go negative
NoUnderflow == \A i \in 1..Len(frames) : frames[i].sd >= 0

\* acceptance: every line was consumed
Post == /\ PrintT(<<"ROW", ToJson([k |-> "trace", reached |-> TLCGet(1), total |-> NT + 1])>>)
        /\ TRUE
=============================================================================
