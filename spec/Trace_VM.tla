------------------------------ MODULE Trace_VM ------------------------------
(***************************************************************************)
(* The control skeleton of the virtual machine - frames, instruction       *)
(* pointer, operand-stack height, active foreach loops, the cancellation   *)
(* flag polled before every instruction - and the validation of executions *)
(* RECORDED FROM THE REAL VM (one event per dispatched instruction, through*)
(* the verif step hook) against it.                                        *)
(*                                                                         *)
(* Inputs: progs.ndjson (the prepared programs, as in MC_Verify) and       *)
(* trace.ndjson, a concatenation of runs:                                  *)
(*   [e |-> "run", p |-> id]            a run of program id starts         *)
(*   [e |-> "step", fd, body, ip, op, arg, sd]                             *)
(*        the instruction about to be dispatched: frame depth (user        *)
(*        function calls in progress), body name, offset, opcode, operand, *)
(*        operand-stack height of the current frame                        *)
(*   [e |-> "cancel"]                   the context was cancelled (the     *)
(*                                      harness does it from the hook, so  *)
(*                                      the position is exact)             *)
(*   [e |-> "end", ok]                  the run returned (ok = no error)   *)
(* Every step must be a step the machine allows from the state reached by  *)
(* the steps before it; after a cancellation no further instruction may be *)
(* dispatched and the run must end with an error (C09); when a run has     *)
(* ended every frame is gone (C07).                                        *)
(***************************************************************************)
EXTENDS EFBytecode, Json, TLC

Progs == ndJsonDeserialize("progs.ndjson")
Trace == ndJsonDeserialize("trace.ndjson")
NT == Len(Trace)

ProgIndex(id) == CHOOSE i \in 1..Len(Progs) : Progs[i].id = id
BodyOf(pi, name) == LET bs == Progs[pi].bodies IN bs[CHOOSE i \in 1..Len(bs) : bs[i].name = name]
HasBody(pi, name) == \E i \in 1..Len(Progs[pi].bodies) : Progs[pi].bodies[i].name = name

VARIABLES l,        \* next trace line
          pi,       \* index of the program being run (0: idle)
          frames,   \* sequence of [body, ip, op, arg, sd, bases]: the last instruction dispatched in each frame
          started,  \* has the current run dispatched anything yet?
          cancelled, after
vars == <<l, pi, frames, started, cancelled, after>>

Init == l = 1 /\ pi = 0 /\ frames = <<>> /\ started = FALSE /\ cancelled = FALSE /\ after = 0

Ev == Trace[l]

\* operand-stack heights allowed before the next instruction of the same frame, given the
\* instruction f just dispatched in it; "bases" are the heights recorded by active foreach loops
NextHeights(f) ==
  LET op == f.op  sd == f.sd  a == f.arg IN
  CASE op \in {OpNop, OpPlaceholder, OpJump} -> {sd}
    [] op \in {OpConstant, OpLookup, OpPush, OpTrue, OpFalse, OpVoid} -> {sd + 1}
    [] op \in BinaryOps -> {sd - 1}
    [] op \in UnaryOps -> {sd}
    [] op = OpSet -> {sd - 2}
    [] op \in {OpLocal, OpInc, OpDec, OpJumpIfFalse} -> {sd - 1}
    [] op \in {OpArray, OpHash} -> {sd - a + 1}
    [] op = OpCall -> {sd - a - 1, sd - a}                 \* a call yields one value, or none (void)
    [] op = OpIterationReset -> {sd}
    [] op = OpIterationNext ->
         LET base == IF Len(f.bases) > 0 THEN f.bases[Len(f.bases)] ELSE sd - 2 IN {base + 1, base}
    [] OTHER -> {}

\* instruction offsets allowed next in the same frame
NextIps(f) ==
  LET nxt == f.ip + OpLen(f.op) IN
  CASE f.op = OpJump -> {f.arg}
    [] f.op = OpJumpIfFalse -> {f.arg, nxt}
    [] f.op = OpReturn -> {}
    [] OTHER -> {nxt}

\* loop bases after the instruction f, when the next instruction sees height sd2
NextBases(f, sd2) ==
  CASE f.op = OpIterationReset -> Append(f.bases, f.sd)
    [] f.op = OpIterationNext ->
         LET base == IF Len(f.bases) > 0 THEN f.bases[Len(f.bases)] ELSE f.sd - 2 IN
         IF sd2 = base /\ Len(f.bases) > 0 THEN SubSeq(f.bases, 1, Len(f.bases) - 1) ELSE f.bases
    [] OTHER -> f.bases

Frame(ev, bases) == [body |-> ev.body, ip |-> ev.ip, op |-> ev.op, arg |-> ev.arg, sd |-> ev.sd, bases |-> bases]

\* the recorded instruction really is the instruction at that offset of that body
Decodes(ev) ==
  /\ HasBody(pi, ev.body)
  /\ LET c == BodyOf(pi, ev.body).code IN
     /\ ev.ip >= 0 /\ ev.ip < Len(c)
     /\ ByteAt(c, ev.ip) = ev.op
     /\ ev.ip + OpLen(ev.op) <= Len(c)
     /\ ev.arg = (IF OpLen(ev.op) = 3 THEN ArgAt(c, ev.ip) ELSE 0)

StartRun ==
  /\ Ev.e = "run" /\ pi = 0
  /\ pi' = ProgIndex(Ev.p) /\ frames' = <<>> /\ started' = FALSE /\ cancelled' = FALSE /\ after' = 0

Cancel ==
  /\ Ev.e = "cancel" /\ pi # 0
  /\ cancelled' = TRUE /\ UNCHANGED <<pi, frames, started, after>>

\* the first instruction of a run: the main body at offset 0 with an empty stack
FirstStep ==
  /\ Ev.e = "step" /\ pi # 0 /\ ~started
  /\ Ev.fd = 0 /\ Ev.body = "main" /\ Ev.ip = 0 /\ Ev.sd = 0 /\ Decodes(Ev)
  /\ frames' = <<Frame(Ev, <<>>)>> /\ started' = TRUE
  /\ after' = IF cancelled THEN after + 1 ELSE after
  /\ UNCHANGED <<pi, cancelled>>

\* the next instruction of the frame on top
SameFrame ==
  /\ Ev.e = "step" /\ started /\ Ev.fd + 1 = Len(frames)
  /\ LET f == frames[Len(frames)] IN
     /\ Ev.body = f.body /\ Decodes(Ev)
     /\ Ev.ip \in NextIps(f)
     /\ Ev.sd \in NextHeights(f)
     /\ frames' = [frames EXCEPT ![Len(frames)] = Frame(Ev, NextBases(f, Ev.sd))]
  /\ after' = IF cancelled THEN after + 1 ELSE after
  /\ UNCHANGED <<pi, started, cancelled>>

\* a call of a user-defined function opens a frame: its body from offset 0, with a stack of its own
Enter ==
  /\ Ev.e = "step" /\ started /\ Ev.fd = Len(frames)
  /\ frames[Len(frames)].op = OpCall
  /\ Ev.body # "main" /\ BodyOf(pi, Ev.body).isfn
  /\ Ev.ip = 0 /\ Ev.sd = 0 /\ Decodes(Ev)
  /\ frames' = Append(frames, Frame(Ev, <<>>))
  /\ after' = IF cancelled THEN after + 1 ELSE after
  /\ UNCHANGED <<pi, started, cancelled>>

\* a return closes the frame on top: the caller continues after its call instruction
Leave ==
  /\ Ev.e = "step" /\ started /\ Ev.fd + 2 = Len(frames)
  /\ frames[Len(frames)].op = OpReturn
  /\ LET caller == frames[Len(frames) - 1] IN
     /\ caller.op = OpCall
     /\ Ev.body = caller.body /\ Decodes(Ev)
     /\ Ev.ip = caller.ip + 3
     /\ Ev.sd \in NextHeights(caller)
     /\ frames' = Append(SubSeq(frames, 1, Len(frames) - 2), Frame(Ev, caller.bases))
  /\ after' = IF cancelled THEN after + 1 ELSE after
  /\ UNCHANGED <<pi, started, cancelled>>

\* the run returns to the host.  Without an error the main frame must have reached a
\* return or its end
EndRun ==
  /\ Ev.e = "end" /\ pi # 0
  \* (a cancellation which arrives with the last instruction of the script does not fail the
  \* run: "a script that finishes before the deadline is unaffected"; PromptStop covers the rest)
  /\ (Ev.ok /\ started => /\ Len(frames) = 1
                          /\ LET f == frames[1] IN
                             \/ f.op = OpReturn
                             \/ \E t \in NextIps(f) : t >= Len(BodyOf(pi, "main").code))
  /\ pi' = 0 /\ frames' = <<>> /\ started' = FALSE /\ cancelled' = FALSE /\ after' = 0

TraceNext ==
  /\ l <= NT
  /\ l' = l + 1
  /\ TLCSet(1, l')
  /\ (StartRun \/ Cancel \/ FirstStep \/ SameFrame \/ Enter \/ Leave \/ EndRun)

TraceSpec == Init /\ [][TraceNext]_vars

\* ---- properties evaluated at every step of every recorded run ---------------------
\* C09: once the context is cancelled no further instruction is dispatched
PromptStop == after = 0
\* frames nest as calls do
FramesSane == \A i \in 1..Len(frames) : (i > 1) = (frames[i].body # "main")
\* heights never go negative
NoUnderflow == \A i \in 1..Len(frames) : frames[i].sd >= 0

\* acceptance: every line was consumed
Post == /\ PrintT(<<"ROW", ToJson([k |-> "trace", reached |-> TLCGet(1), total |-> NT + 1])>>)
        /\ TRUE
=============================================================================
