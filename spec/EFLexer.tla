------------------------------ MODULE EFLexer ------------------------------
(***************************************************************************)
(* The lexical grammar of evalfilter (property C14), as a function from a  *)
(* sequence of code points to a sequence of tokens <<type, literal>>.      *)
(*                                                                         *)
(*  - white space (space, tab, newline, carriage return) and // comments   *)
(*    up to the end of the line separate tokens and mean nothing;          *)
(*  - a string literal, in either quote style, denotes the characters      *)
(*    between its quotes after the escapes \n \r \t \" \\, backslash +     *)
(*    newline denoting nothing, any other escaped character itself;        *)
(*  - a regexp literal /.../ denotes its pattern, a backslash taking the   *)
(*    next character literally, followed by flags i and m; it is written   *)
(*    "(?flags)pattern" when there are flags; any other flag letter is an  *)
(*    error;                                                               *)
(*  - digits denote an integer, digits '.' digits a decimal;               *)
(*  - '/' is division after an identifier, a number, ')' or ']', and       *)
(*    starts a regexp anywhere else;                                       *)
(*  - an unterminated string or regexp, and a character the language has   *)
(*    no use for, yield the token ILLEGAL.                                 *)
(* The token stream ends with EOF; what follows an ILLEGAL token is not    *)
(* constrained (the parser stops there).                                   *)
(***************************************************************************)
EXTENDS Integers, Sequences, TLC

Tok(ty, lit) == <<ty, lit>>

IsSpace(c)  == c \in {32, 9, 10, 13}
IsDigit(c)  == c >= 48 /\ c <= 57
\* letters of the model alphabet: ASCII letters, and the non-ASCII letters é (233) and 日 (26085)
IsLetter(c) == (c >= 97 /\ c <= 122) \/ (c >= 65 /\ c <= 90) \/ c \in {233, 26085}
IsIdent(c)  == IsLetter(c) \/ IsDigit(c) \/ c \in {36, 95}

At(cs, i) == IF i <= Len(cs) THEN cs[i] ELSE -1       \* -1 stands for "past the end"

Keyword(lit) ==
  CASE lit = <<105, 110>> -> "IN"                              \* in
    [] lit = <<105, 102>> -> "IF"                              \* if
    [] OTHER -> "IDENT"

DivisionAfter == {")", "IDENT", "]", "FLOAT", "INT"}

RECURSIVE SkipSpace(_, _), SkipLine(_, _), ScanWhile(_, _, _), ScanString(_, _, _, _), ScanRegexp(_, _, _), ScanFlags(_, _, _)

SkipSpace(cs, i) == IF i <= Len(cs) /\ IsSpace(cs[i]) THEN SkipSpace(cs, i + 1) ELSE i
SkipLine(cs, i)  == IF i > Len(cs) \/ cs[i] = 10 \/ cs[i] = 0 THEN i ELSE SkipLine(cs, i + 1)   \* (a NUL is never skipped)

\* index after the longest run of characters of a class starting at i; class: "d" digits, "i" identifier
ScanWhile(cs, i, class) ==
  IF i <= Len(cs) /\ (IF class = "d" THEN IsDigit(cs[i]) ELSE IsIdent(cs[i])) THEN ScanWhile(cs, i + 1, class) ELSE i

\* string body from i (after the opening quote): <<"ok", denoted characters, index after the closing quote>> or <<"bad">>
ScanString(cs, i, q, acc) ==
  IF i > Len(cs) \/ cs[i] = 0 THEN <<"bad">>          \* the NUL character is illegal everywhere
  ELSE IF cs[i] = q THEN <<"ok", acc, i + 1>>
  ELSE IF cs[i] = 92 THEN
       (IF i + 1 > Len(cs) \/ cs[i + 1] = 0 THEN <<"bad">>
        ELSE IF cs[i + 1] = 10 THEN ScanString(cs, i + 2, q, acc)                  \* continuation line
        ELSE LET e == cs[i + 1]
                 d == CASE e = 110 -> 10 [] e = 114 -> 13 [] e = 116 -> 9 [] OTHER -> e
             IN ScanString(cs, i + 2, q, Append(acc, d)))
  ELSE ScanString(cs, i + 1, q, Append(acc, cs[i]))

\* regexp body from i (after the opening slash): <<"ok", pattern, index after the closing slash>> or <<"bad">>
ScanRegexp(cs, i, acc) ==
  IF i > Len(cs) \/ cs[i] = 0 THEN <<"bad">>
  ELSE IF cs[i] = 47 THEN <<"ok", acc, i + 1>>
  ELSE IF cs[i] = 92 THEN
       (IF i + 1 > Len(cs) THEN <<"bad">> ELSE ScanRegexp(cs, i + 2, Append(acc, cs[i + 1])))
  ELSE ScanRegexp(cs, i + 1, Append(acc, cs[i]))

\* flag letters from i: <<flags without repeats in order of appearance, index after them>>
ScanFlags(cs, i, acc) ==
  IF i <= Len(cs) /\ IsLetter(cs[i])
  THEN ScanFlags(cs, i + 1, IF \E k \in 1..Len(acc) : acc[k] = cs[i] THEN acc ELSE Append(acc, cs[i]))
  ELSE <<acc, i>>

ILLEGAL == Tok("ILLEGAL", <<>>)
EOFTOK  == Tok("EOF", <<>>)

\* One token starting at i (white space and comments already skipped): <<token, next index>>
OneToken(cs, i, prev) ==
  LET c == cs[i]  n == At(cs, i + 1) IN
  CASE c = 34 \/ c = 39 ->
         (LET r == ScanString(cs, i + 1, c, <<>>) IN
          IF r[1] = "bad" THEN <<ILLEGAL, Len(cs) + 1>> ELSE <<Tok("STRING", r[2]), r[3]>>)
    [] c = 47 ->
         IF prev \in DivisionAfter
         THEN (IF n = 61 THEN <<Tok("/=", <<47, 61>>), i + 2>> ELSE <<Tok("/", <<47>>), i + 1>>)
         ELSE (LET r == ScanRegexp(cs, i + 1, <<>>) IN
               IF r[1] = "bad" THEN <<ILLEGAL, Len(cs) + 1>>
               ELSE LET f == ScanFlags(cs, r[3], <<>>) IN
                    IF \E k \in 1..Len(f[1]) : f[1][k] \notin {105, 109} THEN <<ILLEGAL, f[2]>>
                    ELSE <<Tok("REGEXP", IF Len(f[1]) > 0 THEN <<40, 63>> \o f[1] \o <<41>> \o r[2] ELSE r[2]), f[2]>>)
    [] IsDigit(c) ->
         (LET j == ScanWhile(cs, i, "d") IN
          IF At(cs, j) = 46 /\ IsDigit(At(cs, j + 1))
          THEN LET k == ScanWhile(cs, j + 1, "d") IN <<Tok("FLOAT", SubSeq(cs, i, k - 1)), k>>
          ELSE <<Tok("INT", SubSeq(cs, i, j - 1)), j>>)
    [] IsIdent(c) ->
         (LET j == ScanWhile(cs, i, "i") IN <<Tok(Keyword(SubSeq(cs, i, j - 1)), SubSeq(cs, i, j - 1)), j>>)
    [] c = 40 -> <<Tok("(", <<40>>), i + 1>>
    [] c = 41 -> <<Tok(")", <<41>>), i + 1>>
    [] c = 91 -> <<Tok("[", <<91>>), i + 1>>
    [] c = 93 -> <<Tok("]", <<93>>), i + 1>>
    [] c = 59 -> <<Tok(";", <<59>>), i + 1>>
    [] c = 44 -> <<Tok(",", <<44>>), i + 1>>
    [] c = 46 -> IF n = 46 THEN <<Tok("..", <<46, 46>>), i + 2>> ELSE <<Tok(".", <<46>>), i + 1>>
    [] c = 61 -> IF n = 61 THEN <<Tok("==", <<61, 61>>), i + 2>> ELSE <<Tok("=", <<61>>), i + 1>>
    [] c = 43 -> IF n = 43 THEN <<Tok("++", <<43, 43>>), i + 2>> ELSE IF n = 61 THEN <<Tok("+=", <<43, 61>>), i + 2>> ELSE <<Tok("+", <<43>>), i + 1>>
    [] c = 45 -> IF n = 45 THEN <<Tok("--", <<45, 45>>), i + 2>> ELSE IF n = 61 THEN <<Tok("-=", <<45, 61>>), i + 2>> ELSE <<Tok("-", <<45>>), i + 1>>
    [] OTHER -> <<ILLEGAL, i + 1>>

\* The token stream from position i, given the type of the previous token.  It stops after
\* the first ILLEGAL token, and ends with EOF otherwise.
RECURSIVE LexFrom(_, _, _)
LexFrom(cs, i, prev) ==
  LET j == SkipSpace(cs, i) IN
  IF j > Len(cs) THEN <<EOFTOK>>
  ELSE IF cs[j] = 47 /\ At(cs, j + 1) = 47 THEN LexFrom(cs, SkipLine(cs, j), prev)      \* a comment
  ELSE LET r == OneToken(cs, j, prev) IN
       IF r[1][1] = "ILLEGAL" THEN <<ILLEGAL>>
       ELSE <<r[1]>> \o LexFrom(cs, r[2], r[1][1])

Lex(cs) == LexFrom(cs, 1, "START")

\* the number of characters a token consumes is at least one: tokenisation terminates
Progress(cs) == \A i \in 1..Len(cs) : \A prev \in {"START", "IDENT", "INT", ")"} :
                   (~IsSpace(cs[i])) => OneToken(cs, i, prev)[2] > i
=============================================================================
