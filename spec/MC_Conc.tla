------------------------------- MODULE MC_Conc ------------------------------
(***************************************************************************)
(* C11, the design: what the goroutines of a host program do when G of     *)
(* them call Run R times on ONE shared evaluator whose script keeps a      *)
(* counter and matches a regexp, while M others use evaluators of their    *)
(* own (which share nothing with anybody but the regexp cache).  A call of *)
(* Run is: take the evaluator's lock; the machine works on its own state;  *)
(* the script reads the counter and writes it back plus one; a regexp is   *)
(* looked up in the cache under the cache lock and (a miss) stored; the    *)
(* machine works on; the lock is released.  EvalLock / CacheLock switch    *)
(* each lock off, to show what it is there for: with both on TLC finds     *)
(* NoDataRace, NoLostUpdate, MutualExclusion, Balanced and NoDeadlock on   *)
(* every interleaving; with the evaluator lock off it finds the data race  *)
(* and the lost update, with the cache lock off the race on the cache.     *)
(* Trace_Conc checks that the events recorded from the real code follow    *)
(* the same discipline (LockDiscipline).                                   *)
(***************************************************************************)
EXTENDS EFConc, TLC

CONSTANTS G, R, M, EvalLock, CacheLock

Ev(g, e, x, o, c) == [g |-> g, e |-> e, x |-> x, o |-> o, c |-> c]

\* the locations of evaluator E
Vm(E) == E \o ".vm"
Ctr(E) == E \o ".n"

\* one call of Run by goroutine g on evaluator E
RunOnce(g, E) ==
  (IF EvalLock THEN <<Ev(g, "lock", E, E, FALSE)>> ELSE <<>>)
  \o <<Ev(g, "wr", Vm(E), E, FALSE), Ev(g, "rd", Ctr(E), E, TRUE), Ev(g, "wr", Ctr(E), E, TRUE)>>
  \o (IF CacheLock THEN <<Ev(g, "clock", "cache-lock", "", FALSE)>> ELSE <<>>)
  \o <<Ev(g, "crd", "cache", "", FALSE), Ev(g, "cwr", "cache", "", FALSE)>>
  \o (IF CacheLock THEN <<Ev(g, "cunlock", "cache-lock", "", FALSE)>> ELSE <<>>)
  \o <<Ev(g, "wr", Vm(E), E, FALSE)>>
  \o (IF EvalLock THEN <<Ev(g, "unlock", E, E, FALSE)>> ELSE <<>>)

RECURSIVE Times(_, _, _)
Times(g, E, n) == IF n = 0 THEN <<>> ELSE RunOnce(g, E) \o Times(g, E, n - 1)

OwnName == <<"own1", "own2", "own3", "own4">>
RECURSIVE Shared(_), Own(_)
Shared(g) == IF g = 0 THEN <<>> ELSE Shared(g - 1) \o Times(g, "S", R)
Own(m) == IF m = 0 THEN <<>> ELSE Own(m - 1) \o Times(100 + m, OwnName[m], R)

\* (the configuration substitutes the constant: CONSTANT Events <- Designed)
Designed == Shared(G) \o Own(M)
=============================================================================
