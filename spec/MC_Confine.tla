----------------------------- MODULE MC_Confine -----------------------------
(***************************************************************************)
(* C10: scripts are confined.                                              *)
(* A capability model over the call graph of the library, extracted from   *)
(* the current tree (rapid type analysis, rooted at a driver which uses    *)
(* every public entry point with only the built-in functions registered,   *)
(* so calls through function values and interfaces are resolved to every   *)
(* function whose address is taken / every type that is instantiated).     *)
(*                                                                         *)
(* graph.ndjson: one record per function, in id order:                     *)
(*   [id, name, to (ids of callees), root, sink, forbidden]                *)
(*   root       an entry point a host or a script can drive: the public    *)
(*              methods of the evaluator, the VM, every built-in           *)
(*   sink       a permitted dealing with the outside world which is not    *)
(*              looked into: reading an environment variable, the clock,   *)
(*              loading the host's time-zone database, writing to the      *)
(*              already open standard output / error                       *)
(*   forbidden  creating, opening, removing or renaming files and          *)
(*              directories, sockets and connections, starting processes,  *)
(*              loading plug-ins, unsafe linkname escapes                  *)
(* The state is "the function currently executing"; TLC explores every     *)
(* call path from every root and checks that no forbidden function is      *)
(* ever entered.                                                           *)
(***************************************************************************)
EXTENDS Integers, Sequences, Json, TLC

Graph == ndJsonDeserialize("graph.ndjson")
NG == Len(Graph)

VARIABLES cur, depth
vars == <<cur, depth>>

Init == /\ cur \in {i \in 1..NG : Graph[i].root}
        /\ depth = 0

Next == /\ ~Graph[cur].sink
        /\ \E k \in 1..Len(Graph[cur].to) : cur' = Graph[cur].to[k]
        /\ depth' = 0        \* (depth is not tracked: the state is the function alone)

Spec == Init /\ [][Next]_vars

Confined == ~Graph[cur].forbidden
=============================================================================
