------------------------------- MODULE MC_Det -------------------------------
(***************************************************************************)
(* C19: preparing and running a script is deterministic.                   *)
(* Programs built around hash literals with 2-5 keys drawn from a pool in  *)
(* which printed forms coincide (1, 1.0, "1"; 1.5, "1.5"), with repeated   *)
(* keys, nested hashes, hashes as values of arrays; every observation of   *)
(* a hash - printed form, keys(), foreach over keys and values, len, index *)
(* by every key - is made, several times within one run.  The reference    *)
(* semantics is a function: where it defines the outcome (no coinciding    *)
(* printed keys, no repeated key) the outcome is prescribed; where it does *)
(* not, the outcome is unconstrained but must be THE SAME on every         *)
(* preparation, every run and in every process (checked by the harness on  *)
(* the compiled program, the result, the host calls and the Dump output).  *)
(***************************************************************************)
EXTENDS EFCorpus, Json

CONSTANT Tier,
         Seed      \* >= 1: shifts which part of a sampled family is taken (1 = the default sample)

VARIABLE row
vars == <<row>>

Fuel == 60
Host == <<<<"t", <<"log">>>>>>

L(v) == <<"lit", v>>
KeyPool == << I(1), F(1, 1), S(<<49>>), I(2), S(<<97>>), F(3, 2), S(<<49, 46, 53>>), S(<<65>>) >>
NK == Len(KeyPool)

\* a hash literal over key indices ks (in written order), the i-th value being 100 + i
HashLit(ks) == <<"hash", [i \in 1..Len(ks) |-> <<L(KeyPool[ks[i]]), LitI(100 + i)>>]>>

Observe(h) == <<
  Asg("h", h),
  ForEach("k", "e", Ref("h"), <<TE(Ref("k")), TE(Ref("e"))>>),
  ForEach("k", "e", Ref("h"), <<TE(Ref("k"))>>),
  Ret(<<"arr", << CallE("string", <<Ref("h")>>), CallE("keys", <<Ref("h")>>), CallE("len", <<Ref("h")>>),
                  CallE("string", <<Ref("h")>>),
                  BinE("[]", Ref("h"), L(I(1))), BinE("[]", Ref("h"), L(S(<<49>>))), BinE("[]", Ref("h"), L(F(1, 1))), BinE("[]", Ref("h"), L(S(<<122>>))) >>>>)
>>

Nested(ks1, ks2) == <<"hash", << <<L(S(<<111>>)), HashLit(ks1)>>, <<L(S(<<105>>)), <<"arr", <<HashLit(ks2), HashLit(ks1)>>>>>> >>>>

MkRow(kind, prog) ==
  LET r1 == RunProgram(prog, <<>>, <<>>, Host, Fuel)
      r2 == RunProgram(prog, r1.g, <<>>, Host, Fuel) IN
  [k |-> kind, prog |-> prog, fns |-> Host, vars |-> <<>>, repeat |-> TRUE,
   runs |-> <<[obj |-> <<>>, exp |-> [out |-> r1.out, calls |-> r1.calls]], [obj |-> <<>>, exp |-> [out |-> r2.out, calls |-> r2.calls]]>>,
   done |-> TRUE]

Init == \E a \in 1..NK, b \in 1..NK : row = [k |-> "d0", a |-> a, b |-> b, done |-> FALSE]

Next ==
  /\ ~row.done
  /\ \/ row' = MkRow("hash2", Observe(HashLit(<<row.a, row.b>>)))
     \/ \E c \in 1..NK : row' = MkRow("hash3", Observe(HashLit(<<row.a, row.b, c>>)))
     \/ \E c \in 1..NK, d \in 1..NK :
          /\ (Tier = "thorough" \/ (row.a + 2 * row.b + 3 * c + 5 * d + Seed - 1) % 9 = 0)
          /\ row' = MkRow("hash4", Observe(HashLit(<<row.a, row.b, c, d>>)))
     \/ \E c \in 1..NK, d \in 1..NK, e \in 1..NK :
          /\ (row.a + 2 * row.b + 3 * c + 5 * d + 7 * e + Seed - 1) % (IF Tier = "thorough" THEN 13 ELSE 211) = 0
          /\ row' = MkRow("hash5", Observe(HashLit(<<row.a, row.b, c, d, e>>)))
     \/ \E c \in 1..NK :
          LET arg == <<"arr", <<Nested(<<row.a, row.b>>, <<c, row.a>>)>> >>
          IN row' = MkRow("nested", <<Ret(CallE("string", <<arg>>))>>)

Spec == Init /\ [][Next]_vars

\* the reference semantics is a function: the second run repeats the first wherever it is defined
Functional == row.done => (Defined(row.runs[1].exp.out) => row.runs[1].exp = row.runs[2].exp)

Export == row.done => PrintT(<<"ROW", ToJson(row)>>)
=============================================================================
