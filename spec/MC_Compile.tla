----------------------------- MODULE MC_Compile -----------------------------
(***************************************************************************)
(* C18 on the specification side, and the binding of EFCompiler to the     *)
(* code.  The programs of the other corpora (control-flow compositions,    *)
(* constant-condition compositions, function templates, fault scripts,     *)
(* aliasing shapes) are compiled by the MODEL compiler; TLC checks that    *)
(* what it emits is well formed (every body decodes, jumps land on         *)
(* instructions of the same body, constants exist and names are strings,   *)
(* function bodies end in a return); each row carries the model's bytes,   *)
(* constant pool and function bodies, which the harness compares with      *)
(* what the real compiler emits for the rendered text (NoOptimize), and    *)
(* likewise the model optimizer's output (EFOptimizer) with the real one.  *)
(***************************************************************************)
EXTENDS EFOptimizer, Json

CONSTANT Tier,
         Seed      \* >= 1: shifts which part of a sampled family is taken (1 = the default sample)
VARIABLE row
vars == <<row>>

Flow  == INSTANCE MC_Flow
Opt   == INSTANCE MC_Opt
Scope == INSTANCE MC_Scope
Hist  == INSTANCE MC_History
Alias == INSTANCE MC_Alias
Det   == INSTANCE MC_Det

MkRow(fam, prog) ==
  LET cc == Compile(prog)
      oc == IF cc.ok THEN Optimize(cc) ELSE [code |-> <<>>, consts |-> <<>>, funcs |-> <<>>, ok |-> FALSE, safe |-> TRUE] IN
  [k |-> "compile", fam |-> fam, prog |-> prog, ok |-> cc.ok, code |-> cc.code, consts |-> cc.consts, funcs |-> cc.funcs,
   wf |-> (IF cc.ok THEN WellFormed(cc) ELSE TRUE),
   ocode |-> oc.code, ofuncs |-> oc.funcs, osafe |-> oc.safe,
   owf |-> (IF cc.ok THEN WellFormed([code |-> oc.code, consts |-> oc.consts, funcs |-> oc.funcs]) ELSE TRUE),
   done |-> TRUE]

NK == Flow!NKinds
Init ==
  \/ \E k1 \in 1..NK, sh \in {"nest2", "seq2"} : row = [k |-> "f0", k1 |-> k1, sh |-> sh, done |-> FALSE]
  \/ \E t \in 1..Scope!NTemplates : row = [k |-> "s0", t |-> t, done |-> FALSE]
  \/ \E sh \in 1..Alias!NShapes : row = [k |-> "a0", sh |-> sh, done |-> FALSE]
  \/ row = [k |-> "h0", done |-> FALSE]
  \/ \E k1 \in 1..NK : row = [k |-> "o0", k1 |-> k1, done |-> FALSE]
  \/ \E a \in 1..Det!NK, b \in 1..Det!NK : row = [k |-> "d0", a |-> a, b |-> b, done |-> FALSE]
  \/ \E a \in 1..Opt!NJ : row = [k |-> "j0", a |-> a, done |-> FALSE]
  \/ \E o1 \in 1..Flow!NTail : row = [k |-> "t0", o1 |-> o1, done |-> FALSE]

Next ==
  /\ ~row.done
  /\ \/ /\ row.k = "f0"
        /\ \E k2 \in 1..NK : row' = MkRow("flow", Flow!Prog(row.sh, row.k1, k2, 1))
     \/ /\ row.k = "f0" /\ row.sh = "nest2"
        /\ \E k2 \in 1..NK, k3 \in 1..NK :
             /\ (Tier = "thorough" \/ (row.k1 + 3 * k2 + 5 * k3 + Seed - 1) % 23 = 0)
             /\ row' = MkRow("flow3", Flow!Prog("nest3", row.k1, k2, k3))
     \/ /\ row.k = "s0"
        /\ \E a \in 1..3, b \in 1..3, place \in 1..6, before \in BOOLEAN :
             /\ a # b
             /\ row' = MkRow("scope", Scope!Prog(row.t, Scope!Names[a], Scope!Names[b], place, before))
     \/ /\ row.k = "a0"
        /\ \E s \in 1..Len(Alias!Sources), m \in 1..Len(Alias!Muts) :
             row' = MkRow("alias", Alias!Shape(row.sh, Alias!Sources[s], Alias!Muts[m]))
     \/ /\ row.k = "h0"
        /\ \E sc \in 1..2 : row' = MkRow("history", IF sc = 1 THEN Hist!Script1 ELSE Hist!Script2)
     \/ \* hash literals whose keys print alike and repeat: the order of the emitted pairs
        /\ row.k = "d0"
        /\ \/ row' = MkRow("det", Det!Observe(Det!HashLit(<<row.a, row.b>>)))
           \/ \E c \in 1..Det!NK : row' = MkRow("det", Det!Observe(Det!HashLit(<<row.a, row.b, c>>)))
           \/ \E c \in 1..Det!NK, d \in 1..Det!NK :
                /\ (row.a + 2 * row.b + 3 * c + 5 * d + Seed - 1) % (IF Tier = "thorough" THEN 3 ELSE 17) = 0
                /\ row' = MkRow("det", Det!Observe(Det!HashLit(<<row.a, row.b, c, d>>)))
           \/ \E c \in 1..Det!NK : row' = MkRow("det", <<<<"ret", <<"call", "string", <<<<"arr", <<Det!Nested(<<row.a, row.b>>, <<c, row.a>>)>>>>>>>>>>>>)
     \/ \* literals at the join of a ternary (every opcode number), and constructs which end a body
        /\ row.k = "j0"
        /\ \E b \in 1..Opt!NJ :
             /\ (Tier = "thorough" \/ (row.a + b + Seed - 1) % 3 = 0)
             /\ row' = MkRow("join", Opt!JoinProg(Opt!JoinLits[row.a], Opt!JoinLits[b]))
     \/ /\ row.k = "t0"
        /\ \E o2 \in 1..Flow!NTail, leaf \in BOOLEAN : row' = MkRow("tail", Flow!TailProg(row.o1, o2, leaf))
     \/ /\ row.k = "o0"
        /\ \E m1 \in 0..Opt!NC, k2 \in 1..NK, m2 \in 0..Opt!NC, sh \in {"nest2", "seq2", "first"} :
             /\ (m1 > 0 => Opt!UsesC(row.k1)) /\ (m2 > 0 => Opt!UsesC(k2)) /\ (m1 > 0 \/ m2 > 0)
             /\ (row.k1 + 3 * m1 + 5 * k2 + 7 * m2 + Seed - 1) % (IF Tier = "thorough" THEN 3 ELSE 29) = 0
             /\ row' = MkRow("opt", Opt!Prog(sh, row.k1, m1, k2, m2))

Spec == Init /\ [][Next]_vars

\* what the model compiler emits is well formed
ModelWellFormed == row.done => row.wf
\* no fold of the optimizer spans a jump target, and nothing jumps into a stretch it removes: the side
\* condition under which the rewrites are sound
FoldsSafe == row.done => row.osafe
\* optimised code is still well formed
OptimisedWellFormed == row.done => row.owf
\* the corpora stay within what the model translates (no hash literals, no unspellable values)
Translated == row.done => row.ok

Export == row.done => PrintT(<<"ROW", ToJson(row)>>)
=============================================================================
