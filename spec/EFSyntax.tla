------------------------------ MODULE EFSyntax ------------------------------
(***************************************************************************)
(* Constructors for the abstract syntax EFSemantics interprets, and the    *)
(* library of control-flow constructs from which the model-checking        *)
(* modules compose programs.  Every construct is instrumented with calls   *)
(* of the host function t(n) before, inside and after its blocks, so that  *)
(* a wrong jump target, a skipped or repeated block or a wrong iteration   *)
(* order changes the observable call sequence.                             *)
(***************************************************************************)
EXTENDS EFSemantics

LitI(n)      == <<"lit", I(n)>>
LitS(cps)    == <<"lit", S(cps)>>
LitB(b)      == <<"lit", B(b)>>
Ref(n)       == <<"ref", n>>
BinE(op, l, r) == <<"bin", op, l, r>>
CallE(f, args) == <<"call", f, args>>
T(n)         == <<"expr", CallE("t", <<LitI(n)>>)>>          \* t(n);
TE(e)        == <<"expr", CallE("t", <<e>>)>>                \* t(e);
Asg(n, e)    == <<"asg", n, e>>
Ret(e)       == <<"ret", e>>
If(c, a)     == <<"if", c, a, <<>>, FALSE>>
IfElse(c, a, b) == <<"if", c, a, b, TRUE>>
While(c, b)  == <<"while", c, b>>
ForEach(idx, var, e, b) == <<"foreach", idx, var, e, b>>
Case(es, b)  == <<FALSE, es, b>>
Default(b)   == <<TRUE, <<>>, b>>
Switch(e, cs) == <<"switch", e, cs>>
Inc(n)       == <<"post", "++", n>>
Bump(n)      == Asg(n, BinE("+", Ref(n), LitI(1)))           \* n = n + 1;

\* names per slot (a slot is a position in the nesting / sequence)
CName == <<"C1", "C2", "C3">>     \* boolean condition fields of the object
DName == <<"D1", "D2", "D3">>
IName == <<"i1", "i2", "i3">>     \* loop counters
XName == <<"x1", "x2", "x3">>     \* loop variables
KName == <<"k1", "k2", "k3">>     \* loop index / key variables
AName == <<"a1", "a2", "a3">>     \* array variables
WName == <<"w1", "w2", "w3">>
FnName == <<"f1", "f2", "f3">>    \* user-defined functions

ArrLit(ns) == <<"arr", [i \in 1..Len(ns) |-> LitI(ns[i])]>>
\* "héy" = 104 233 121
StrHey == LitS(<<104, 233, 121>>)
\* {"b": 2, "a": 1}
HashBA == <<"hash", <<<<LitS(<<98>>), LitI(2)>>, <<LitS(<<97>>), LitI(1)>>>>>>
ReA    == <<"lit", R(<<94, 97>>, "")>>        \* /^a/

NKinds == 43

\* The construct of kind k in slot j (base call number n = 100 * j) around body block B.
MkC(k, j, BODY, c, d) ==
  LET n == 100 * j  i == IName[j]  x == XName[j]
      kk == KName[j]  a == AName[j]  w == WName[j]  f == FnName[j] IN
  CASE k = 1  -> <<T(n), If(c, <<T(n + 1)>> \o BODY \o <<T(n + 2)>>), T(n + 3)>>
    [] k = 2  -> <<T(n), IfElse(c, <<T(n + 1)>> \o BODY, <<T(n + 2)>>), T(n + 3)>>
    [] k = 3  -> <<T(n), IfElse(c, <<T(n + 1)>>, <<IfElse(d, <<T(n + 2)>> \o BODY, <<T(n + 4)>>)>>), T(n + 3)>>
    [] k = 4  -> <<Asg(i, LitI(0)), While(BinE("<", Ref(i), LitI(0)), <<Inc(i), T(n + 1)>> \o BODY), T(n + 3)>>
    [] k = 5  -> <<Asg(i, LitI(0)), While(BinE("<", Ref(i), LitI(1)), <<Inc(i), T(n + 1)>> \o BODY), T(n + 3)>>
    [] k = 6  -> <<Asg(i, LitI(0)), While(BinE("<", Ref(i), LitI(3)), <<Inc(i), TE(Ref(i))>> \o BODY \o <<T(n + 2)>>), T(n + 3)>>
    [] k = 7  -> <<Asg(i, LitI(2)), <<"for", BinE(">", Ref(i), LitI(0)), <<<<"post", "--", i>>, TE(Ref(i))>> \o BODY>>, T(n + 3)>>
    [] k = 8  -> <<ForEach("", x, ArrLit(<<>>), <<T(n + 1)>> \o BODY), T(n + 3)>>
    [] k = 9  -> <<ForEach("", x, ArrLit(<<7>>), <<TE(Ref(x))>> \o BODY), T(n + 3)>>
    [] k = 10 -> <<ForEach("", x, ArrLit(<<4, 5, 6>>), <<TE(Ref(x))>> \o BODY \o <<T(n + 2)>>), T(n + 3)>>
    [] k = 11 -> <<ForEach(kk, x, ArrLit(<<8, 9>>), <<TE(Ref(kk)), TE(Ref(x))>> \o BODY), T(n + 3)>>
    [] k = 12 -> <<ForEach("", x, StrHey, <<TE(Ref(x))>> \o BODY), T(n + 3)>>
    [] k = 13 -> <<ForEach(kk, x, StrHey, <<TE(Ref(kk)), TE(Ref(x))>> \o BODY), T(n + 3)>>
    [] k = 14 -> <<ForEach("", x, HashBA, <<TE(Ref(x))>> \o BODY), T(n + 3)>>
    [] k = 15 -> <<ForEach(kk, x, HashBA, <<TE(Ref(kk)), TE(Ref(x))>> \o BODY), T(n + 3)>>
    [] k = 16 -> <<ForEach("", x, BinE("..", LitI(1), LitI(3)), <<TE(Ref(x))>> \o BODY), T(n + 3)>>
    [] k = 17 -> <<ForEach(kk, x, BinE("..", LitI(2), LitI(2)), <<TE(Ref(kk)), TE(Ref(x))>> \o BODY), T(n + 3)>>
    [] k = 18 -> <<Switch(LitI(1), <<Case(<<LitI(1)>>, <<T(n + 1)>> \o BODY), Case(<<LitI(1)>>, <<T(n + 2)>>), Default(<<T(n + 4)>>)>>), T(n + 3)>>
    [] k = 19 -> <<Switch(LitI(3), <<Case(<<LitI(1)>>, <<T(n + 1)>>), Case(<<LitI(2), LitI(3)>>, <<T(n + 2)>> \o BODY), Default(<<T(n + 4)>>)>>), T(n + 3)>>
    [] k = 20 -> <<Switch(LitI(9), <<Case(<<LitI(1)>>, <<T(n + 1)>>), Default(<<T(n + 4)>> \o BODY), Case(<<LitI(2)>>, <<T(n + 2)>>)>>), T(n + 3)>>
    [] k = 21 -> <<Switch(LitI(9), <<Case(<<LitI(1)>>, <<T(n + 1)>> \o BODY), Case(<<LitI(2)>>, <<T(n + 2)>>)>>), T(n + 3)>>
    [] k = 22 -> <<Switch(LitS(<<97, 98>>), <<Case(<<LitS(<<97>>)>>, <<T(n + 1)>>), Case(<<ReA>>, <<T(n + 2)>> \o BODY), Default(<<T(n + 4)>>)>>), T(n + 3)>>
    [] k = 23 -> <<Switch(BinE("+", LitI(1), LitI(1)), <<Case(<<BinE("-", LitI(3), LitI(1))>>, <<T(n + 1)>> \o BODY), Default(<<T(n + 4)>>)>>), T(n + 3)>>
    [] k = 24 -> <<TE(<<"tern", c, LitI(n + 1), LitI(n + 2)>>)>> \o BODY \o <<T(n + 3)>>
    [] k = 25 -> <<If(c, <<T(n + 1), Ret(LitI(n + 5))>>)>> \o BODY \o <<T(n + 3)>>
    [] k = 26 -> <<T(n)>> \o BODY \o <<T(n + 3)>>
    [] k = 27 -> <<Asg(w, c), While(Ref(w), <<Asg(w, LitB(FALSE)), T(n + 1)>> \o BODY), T(n + 3)>>
    [] k = 28 -> <<Asg(a, ArrLit(<<1, 2>>)), ForEach("", x, Ref(a), <<TE(Ref(x))>> \o BODY), T(n + 3)>>
    \* the same literal iterated by an inner loop of the same shape: positions must not be shared
    [] k = 29 -> <<ForEach("", x, ArrLit(<<4, 5, 6>>), <<TE(Ref(x)), ForEach("", "y", ArrLit(<<4, 5, 6>>), <<TE(Ref("y"))>>)>> \o BODY), T(n + 3)>>
    [] k = 30 -> <<Asg(a, ArrLit(<<1, 2>>)), ForEach("", x, Ref(a), <<TE(Ref(x)), ForEach("", "y", Ref(a), <<TE(Ref("y"))>>)>> \o BODY), T(n + 3)>>
    [] k = 31 -> <<ForEach("", x, ArrLit(<<4, 5, 6>>), <<TE(Ref(x)), If(BinE("==", Ref(x), LitI(5)), <<T(n + 1), Ret(Ref(x))>>)>> \o BODY), T(n + 3)>>

    \* a return in the branch a condition does not select, and in the one it does
    [] k = 32 -> <<T(n), IfElse(c, <<T(n + 1)>> \o BODY, <<T(n + 2), Ret(LitI(n + 5))>>), T(n + 3)>>
    [] k = 33 -> <<T(n), IfElse(c, <<T(n + 1), Ret(LitI(n + 5))>>, <<T(n + 2)>> \o BODY), T(n + 3)>>
    \* constant arithmetic next to the construct's own code (what the optimizer folds)
    [] k = 34 -> <<TE(BinE("*", LitI(2), LitI(3)))>> \o BODY \o <<TE(BinE("-", LitI(7), LitI(4))), TE(BinE("/", LitI(9), LitI(3)))>>
    [] k = 35 -> <<Asg(x, BinE("+", LitI(65534), LitI(1))), TE(BinE("-", LitI(3), LitI(5)))>> \o BODY \o <<TE(BinE("+", Ref(x), BinE("*", LitI(2), LitI(2))))>>
    [] k = 36 -> <<TE(<<"tern", c, BinE("+", LitI(1), LitI(2)), BinE("*", LitI(2), LitI(2))>>)>> \o BODY \o <<TE(BinE("+", <<"tern", c, LitI(1), LitI(3)>>, LitI(4)))>>
    [] k = 37 -> <<If(<<"tern", c, LitB(TRUE), LitB(FALSE)>>, <<T(n + 1)>> \o BODY), While(<<"tern", c, LitB(FALSE), LitB(FALSE)>>, <<T(n + 2)>>), T(n + 3)>>
    \* the arm written last is taken while `default` is written in the middle / first
    [] k = 38 -> <<Switch(LitI(2), <<Case(<<LitI(1)>>, <<T(n + 1)>>), Default(<<T(n + 4)>>), Case(<<LitI(2)>>, <<T(n + 2)>> \o BODY)>>), T(n + 3)>>
    [] k = 39 -> <<Switch(LitI(3), <<Default(<<T(n + 4)>>), Case(<<LitI(1)>>, <<T(n + 1)>>), Case(<<LitI(2), LitI(3)>>, <<T(n + 2)>> \o BODY)>>), T(n + 3)>>
    \* a user-defined function called from inside a loop, its result discarded / used
    [] k = 40 -> <<<<"func", f, <<"p">>, <<Ret(BinE("*", Ref("p"), LitI(2)))>>>>,
                   ForEach("", x, ArrLit(<<1, 2, 3>>), <<<<"expr", CallE(f, <<Ref(x)>>)>>, TE(Ref(x))>> \o BODY), T(n + 3)>>
    \* ... which itself returns from inside a loop of its own
    [] k = 41 -> <<<<"func", f, <<"p">>, <<ForEach("", "q", ArrLit(<<5, 6>>), <<If(BinE("==", Ref("q"), LitI(6)), <<Ret(BinE("+", Ref("q"), Ref("p")))>>)>>), Ret(LitI(0))>>>>,
                   ForEach("", x, ArrLit(<<1, 2>>), <<TE(CallE(f, <<Ref(x)>>))>> \o BODY \o <<T(n + 2)>>), T(n + 3)>>
    \* a switch without any case: only a default block (its value is still evaluated), and a switch on a condition field
    [] k = 42 -> <<Switch(BinE("+", LitI(1), LitI(1)), <<Default(<<T(n + 4)>> \o BODY)>>), T(n + 3)>>
    [] k = 43 -> <<Switch(c, <<Default(<<T(n + 4)>>), Case(<<LitB(TRUE)>>, <<T(n + 1)>> \o BODY)>>), T(n + 3)>>

Mk(k, j, BODY) == MkC(k, j, BODY, Ref(CName[j]), Ref(DName[j]))

UsesC(k) == k \in {1, 2, 3, 24, 25, 27, 32, 33, 36, 37, 43}
UsesD(k) == k = 3
=============================================================================
