----------------------------- MODULE EFCompiler -----------------------------
(***************************************************************************)
(* The translation of programs to machine code, structured like            *)
(* compiler.go: a walk over the syntax tree which appends instructions to  *)
(* a byte sequence, back-patches jump operands, emits a placeholder after  *)
(* if / while / foreach / switch / ternary so that every label is an       *)
(* instruction, keeps constants in a pool (de-duplicated by type and       *)
(* printed form), compiles each function body into a byte sequence of its  *)
(* own and appends "void; return" when its last instruction is not a       *)
(* return.                                                                 *)
(*                                                                         *)
(* The compiler state:                                                     *)
(*   code    the bytes emitted so far (of the body being compiled)         *)
(*   consts  the constant pool: <<"S", cps>> <<"I", n>> <<"F", num, den>>  *)
(*           <<"R", cps, flags>>                                           *)
(*   funcs   the compiled functions: <<name, params, code>> in definition  *)
(*           order                                                         *)
(*   ok      FALSE when the program uses something the model does not      *)
(*           translate (hash literals whose keys are not literals - the    *)
(*           pairs are ordered by the source text of the keys -, values    *)
(*           without a spelling)                                           *)
(* It is bound to the code by comparison: for every enumerated program the *)
(* bytes, constants and functions must equal what the real compiler emits  *)
(* (NoOptimize); a difference is reported as drift of the model.           *)
(***************************************************************************)
EXTENDS EFSemantics, EFBytecode

Hi(n) == n \div 256
Lo(n) == n % 256
Emit1(st, op) == [st EXCEPT !.code = Append(st.code, op)]
Emit3(st, op, arg) == [st EXCEPT !.code = st.code \o <<op, Hi(arg), Lo(arg)>>]
Here(st) == Len(st.code)
\* overwrite the operand of the instruction at 0-based offset pos
Patch(st, pos, arg) == [st EXCEPT !.code = [i \in 1..Len(st.code) |->
                          IF i = pos + 2 THEN Hi(arg) ELSE IF i = pos + 3 THEN Lo(arg) ELSE st.code[i]]]

ConstIndex(cs, c) == IF \E i \in 1..Len(cs) : cs[i] = c THEN CHOOSE i \in 1..Len(cs) : cs[i] = c ELSE 0
\* emit an instruction whose operand is the pool index of constant c (added if new)
EmitConst(st, op, c) ==
  LET k == ConstIndex(st.consts, c) IN
  IF k > 0 THEN Emit3(st, op, k - 1)
  ELSE Emit3([st EXCEPT !.consts = Append(st.consts, c)], op, Len(st.consts))
StrConst(name) == <<"S", name>>          \* names are TLA+ strings; the harness compares them as text

BinOpcode(op) ==
  CASE op = "+" -> OpAdd [] op = "-" -> OpSub [] op = "*" -> OpMul [] op = "/" -> OpDiv [] op = "%" -> OpMod [] op = "**" -> OpPower
    [] op = "<" -> OpLess [] op = "<=" -> OpLessEqual [] op = ">" -> OpGreater [] op = ">=" -> OpGreaterEqual
    [] op = "==" -> OpEqual [] op = "!=" -> OpNotEqual [] op = "~=" -> OpMatches [] op = "!~" -> OpNotMatches
    [] op = "in" -> OpArrayIn [] op = "&&" -> OpAnd [] op = "||" -> OpOr [] op = ".." -> OpRange [] op = "[]" -> OpIndex
UnOpcode(op) == CASE op = "-" -> OpMinus [] op = "!" -> OpBang [] op = "sqrt" -> OpSquareRoot

Bad(st) == [st EXCEPT !.ok = FALSE]

RECURSIVE CVal(_, _), CValList(_, _, _), CExpr(_, _), CList(_, _, _), CStmt(_, _), CBlock(_, _, _), CCases(_, _, _, _, _), CCaseExprs(_, _, _, _, _, _), CDefaults(_, _, _), PatchAll(_, _, _), CPairs(_, _, _)

\* a literal value, as the harness spells it (negative numbers are a minus applied to the magnitude)
CVal(v, st) ==
  CASE IsInt(v) -> IF v[2] < 0 THEN Emit1(CVal(I(-v[2]), st), OpMinus)
                   ELSE IF v[2] <= 65534 THEN Emit3(st, OpPush, v[2])
                   ELSE EmitConst(st, OpConstant, <<"I", v[2]>>)
    [] IsFlt(v) -> IF v[2] < 0 THEN Emit1(CVal(<<"F", -v[2], v[3]>>, st), OpMinus)
                   ELSE EmitConst(st, OpConstant, <<"F", v[2], v[3]>>)
    [] IsStr(v) -> EmitConst(st, OpConstant, <<"SV", v[2]>>)
    [] IsBool(v) -> Emit1(st, IF v[2] THEN OpTrue ELSE OpFalse)
    [] IsNull(v) -> EmitConst(st, OpLookup, StrConst("NULLV"))
    [] IsArr(v) -> Emit3(CValList(v[2], 1, st), OpArray, Len(v[2]))
    [] IsRe(v) -> IF Len(v[2]) = 0 THEN Bad(st) ELSE EmitConst(st, OpConstant, <<"R", v[2], v[3]>>)
    [] OTHER -> Bad(st)
CValList(vs, i, st) == IF i > Len(vs) THEN st ELSE CValList(vs, i + 1, CVal(vs[i], st))

\* ---- hash literals: the pairs are emitted in the order of the SOURCE TEXT of their key expressions ------
\* (compiler.go sorts by String() of the key node, then by the node's type name, then by the value's text and
\* type).  The model knows the text of literal keys: a non-negative integer as written, a non-negative decimal
\* in its shortest spelling with at least one digit after the point, a string between double quotes; other
\* keys are not translated.
RECURSIVE FracDigits(_, _, _)
FracDigits(r, d, k) == IF r = 0 THEN <<>> ELSE IF k = 0 THEN <<-1>>
                       ELSE <<48 + ((r * 10) \div d)>> \o FracDigits((r * 10) % d, d, k - 1)
PlainText(cps) == \A i \in 1..Len(cps) : cps[i] \notin {9, 10, 13, 34, 92}
LitTextOK(e) ==
  /\ e[1] = "lit"
  /\ \/ (IsInt(e[2]) /\ e[2][2] >= 0)
     \/ (IsStr(e[2]) /\ PlainText(e[2][2]))
     \/ (IsFlt(e[2]) /\ e[2][2] >= 0 /\ e[2][3] <= 10000 /\ -1 \notin {FracDigits(e[2][2] % e[2][3], e[2][3], 9)[i] : i \in 1..Len(FracDigits(e[2][2] % e[2][3], e[2][3], 9))})
LitText(e) ==
  CASE IsInt(e[2]) -> Inspect(e[2])
    [] IsStr(e[2]) -> <<34>> \o e[2][2] \o <<34>>
    [] IsFlt(e[2]) -> LET n == e[2][2]  d == e[2][3]  fr == FracDigits(n % d, d, 9) IN
                      Inspect(I(n \div d)) \o <<46>> \o (IF Len(fr) = 0 THEN <<48>> ELSE fr)
\* "*ast.FloatLiteral" < "*ast.IntegerLiteral" < "*ast.StringLiteral"
LitRank(e) == CASE IsFlt(e[2]) -> 1 [] IsInt(e[2]) -> 2 [] IsStr(e[2]) -> 3
PairLess(p, q) ==
  LET a == LitText(p[1])  b == LitText(q[1]) IN
  \/ SeqLess(a, b)
  \/ /\ a = b
     /\ \/ LitRank(p[1]) < LitRank(q[1])
        \/ /\ LitRank(p[1]) = LitRank(q[1])
           /\ LET va == LitText(p[2])  vb == LitText(q[2]) IN
              SeqLess(va, vb) \/ (va = vb /\ LitRank(p[2]) < LitRank(q[2]))
SameKeyText(p, q) == LitText(p[1]) = LitText(q[1]) /\ LitRank(p[1]) = LitRank(q[1])
\* translatable: every key is a literal with a known text, and where two keys are written alike the values are too
HashOK(ps) == /\ \A i \in 1..Len(ps) : LitTextOK(ps[i][1])
              /\ \A i \in 1..Len(ps), j \in 1..Len(ps) : (i # j /\ SameKeyText(ps[i], ps[j])) => (LitTextOK(ps[i][2]) /\ LitTextOK(ps[j][2]))
RECURSIVE InsKeyPair(_, _), SortKeyPairs(_)
InsKeyPair(x, sorted) == IF Len(sorted) = 0 THEN <<x>>
                         ELSE IF PairLess(x, sorted[1]) THEN <<x>> \o sorted ELSE <<sorted[1]>> \o InsKeyPair(x, Tail(sorted))
SortKeyPairs(ps) == IF Len(ps) = 0 THEN <<>> ELSE InsKeyPair(ps[Len(ps)], SortKeyPairs(SubSeq(ps, 1, Len(ps) - 1)))

CList(es, i, st) == IF i > Len(es) THEN st ELSE CList(es, i + 1, CExpr(es[i], st))

CExpr(e, st) ==
  CASE e[1] = "lit" -> CVal(e[2], st)
    [] e[1] = "ref" -> EmitConst(st, OpLookup, StrConst(e[2]))
    [] e[1] = "un" -> Emit1(CExpr(e[3], st), UnOpcode(e[2]))
    [] e[1] = "bin" -> Emit1(CExpr(e[4], CExpr(e[3], st)), BinOpcode(e[2]))
    [] e[1] = "tern" ->
         LET s1 == CExpr(e[2], st)
             jif == Here(s1)
             s2 == CExpr(e[3], Emit3(s1, OpJumpIfFalse, 9999))
             jmp == Here(s2)
             s3 == Emit3(s2, OpJump, 9999)
             s4 == CExpr(e[4], Patch(s3, jif, Here(s3)))
         IN Emit1(Patch(s4, jmp, Here(s4)), OpPlaceholder)
    [] e[1] = "call" -> Emit3(EmitConst(CList(e[3], 1, st), OpConstant, StrConst(e[2])), OpCall, Len(e[3]))
    [] e[1] = "arr" -> Emit3(CList(e[2], 1, st), OpArray, Len(e[2]))
    [] e[1] = "hash" ->
         IF HashOK(e[2]) THEN Emit3(CPairs(SortKeyPairs(e[2]), 1, st), OpHash, 2 * Len(e[2])) ELSE Bad(st)
    [] OTHER -> Bad(st)

CPairs(ps, i, st) == IF i > Len(ps) THEN st ELSE CPairs(ps, i + 1, CExpr(ps[i][2], CExpr(ps[i][1], st)))

CBlock(blk, i, st) == IF i > Len(blk) THEN st ELSE CBlock(blk, i + 1, CStmt(blk[i], st))

PatchAll(st, ps, target) == IF Len(ps) = 0 THEN st ELSE PatchAll(Patch(st, ps[1], target), Tail(ps), target)

\* the expressions of one case: value; expr; case; jif; block; jump END - for each expression
CCaseExprs(value, es, i, blk, st, patches) ==
  IF i > Len(es) THEN <<st, patches>>
  ELSE LET s1 == Emit1(CExpr(es[i], CExpr(value, st)), OpCase)
           jif == Here(s1)
           s2 == CBlock(blk, 1, Emit3(s1, OpJumpIfFalse, 9999))
           jmp == Here(s2)
           s3 == Emit3(s2, OpJump, 9999)
       IN CCaseExprs(value, es, i + 1, blk, Patch(s3, jif, Here(s3)), Append(patches, jmp))
CCases(value, cs, i, st, patches) ==
  IF i > Len(cs) THEN <<st, patches>>
  ELSE IF cs[i][1] THEN CCases(value, cs, i + 1, st, patches)
  ELSE LET r == CCaseExprs(value, cs[i][2], 1, cs[i][3], st, patches) IN CCases(value, cs, i + 1, r[1], r[2])
CDefaults(cs, i, st) ==
  IF i > Len(cs) THEN st ELSE CDefaults(cs, i + 1, IF cs[i][1] THEN CBlock(cs[i][3], 1, st) ELSE st)

\* the opcode of the last instruction of a body (OpNop for an empty one)
RECURSIVE LastOp(_, _, _)
LastOp(c, i, last) == IF i >= Len(c) THEN last ELSE LastOp(c, i + OpLen(ByteAt(c, i)), ByteAt(c, i))

CStmt(s, st) ==
  CASE s[1] = "expr" -> CExpr(s[2], st)
    [] s[1] = "ret" -> Emit1(CExpr(s[2], st), OpReturn)
    [] s[1] = "asg" -> Emit1(EmitConst(CExpr(s[3], st), OpConstant, StrConst(s[2])), OpSet)
    [] s[1] = "casg" -> LET s1 == CExpr(s[4], EmitConst(st, OpLookup, StrConst(s[3])))
                            s2 == Emit1(s1, BinOpcode(CompoundOp(s[2])))
                        IN Emit1(EmitConst(s2, OpConstant, StrConst(s[3])), OpSet)
    [] s[1] = "post" -> EmitConst(EmitConst(st, OpLookup, StrConst(s[3])), IF s[2] = "++" THEN OpInc ELSE OpDec, StrConst(s[3]))
    [] s[1] = "local" -> Emit1(EmitConst(st, OpConstant, StrConst(s[2])), OpLocal)
    [] s[1] = "if" ->
         LET s1 == CExpr(s[2], st)
             jif == Here(s1)
             s2 == CBlock(s[3], 1, Emit3(s1, OpJumpIfFalse, 9999))
         IN IF ~s[5] THEN Emit1(Patch(s2, jif, Here(s2)), OpPlaceholder)
            ELSE LET jmp == Here(s2)
                     s3 == Emit3(s2, OpJump, 9999)
                     s4 == CBlock(s[4], 1, Patch(s3, jif, Here(s3)))
                 IN Emit1(Patch(s4, jmp, Here(s4)), OpPlaceholder)
    [] s[1] \in {"while", "for"} ->
         LET cur == Here(st)
             s1 == CExpr(s[2], st)
             jif == Here(s1)
             s2 == Emit3(CBlock(s[3], 1, Emit3(s1, OpJumpIfFalse, 9999)), OpJump, cur)
         IN Emit1(Patch(s2, jif, Here(s2)), OpPlaceholder)
    [] s[1] = "foreach" ->
         LET s1 == Emit1(CExpr(s[4], st), OpIterationReset)
             start == Here(s1)
             s2 == EmitConst(EmitConst(s1, OpConstant, StrConst(s[2])), OpConstant, StrConst(s[3]))
             s3 == Emit1(s2, OpIterationNext)
             jif == Here(s3)
             s4 == Emit3(CBlock(s[5], 1, Emit3(s3, OpJumpIfFalse, 9999)), OpJump, start)
         IN Emit1(Patch(s4, jif, Here(s4)), OpPlaceholder)
    [] s[1] = "switch" ->
         \* (the value is compiled in front of every case expression; a switch with no case expression at all
         \* - only a default block, or nothing - still has its value compiled, once)
         LET r == CCases(s[2], s[3], 1, st, <<>>)
             noCase == \A i \in 1..Len(s[3]) : s[3][i][1] \/ Len(s[3][i][2]) = 0
             s0 == IF noCase THEN CExpr(s[2], r[1]) ELSE r[1]
             s1 == CDefaults(s[3], 1, s0)
         IN Emit1(PatchAll(s1, r[2], Here(s1)), OpPlaceholder)
    [] s[1] = "func" ->
         \* the body is compiled into a byte sequence of its own; the pool is shared
         LET inner == CBlock(s[4], 1, [st EXCEPT !.code = <<>>])
             body == IF LastOp(inner.code, 0, OpNop) # OpReturn THEN inner.code \o <<OpVoid, OpReturn>> ELSE inner.code
             fs == [i \in 1..Len(inner.funcs) |-> inner.funcs[i]]
             \* a later definition of the same name replaces the earlier one
             kept == SelectSeq(fs, LAMBDA f : f[1] # s[2])
         IN [inner EXCEPT !.code = st.code, !.funcs = Append(kept, <<s[2], s[3], body>>)]
    [] OTHER -> Bad(st)

Compile(prog) == CBlock(prog, 1, [code |-> <<>>, consts |-> <<>>, funcs |-> <<>>, ok |-> TRUE])

(***************************************************************************)
(* Well-formedness of what the model compiler emits (the static clauses of *)
(* C18, stated on the specification): every body decodes, every jump lands *)
(* on an instruction of the same body, constants exist and names are       *)
(* strings, function bodies end in a return.                               *)
(***************************************************************************)
RECURSIVE InstrOK(_, _, _, _)
InstrOK(c, i, starts, consts) ==
  IF i >= Len(c) THEN TRUE
  ELSE LET op == ByteAt(c, i) IN
       /\ (op \in {OpJump, OpJumpIfFalse} => ArgAt(c, i) \in starts)
       /\ (op \in {OpConstant, OpLookup, OpInc, OpDec} => ArgAt(c, i) < Len(consts))
       /\ (op \in {OpLookup, OpInc, OpDec} => consts[ArgAt(c, i) + 1][1] = "S")
       /\ InstrOK(c, i + OpLen(op), starts, consts)
CodeBodyOK(c, consts) == LET st == Starts(c, 0) IN -1 \notin st /\ -2 \notin st /\ InstrOK(c, 0, st, consts)
WellFormed(cc) == /\ CodeBodyOK(cc.code, cc.consts)
                  /\ \A i \in 1..Len(cc.funcs) : /\ CodeBodyOK(cc.funcs[i][3], cc.consts)
                                                 /\ LastOp(cc.funcs[i][3], 0, OpNop) = OpReturn
=============================================================================
