------------------------------- MODULE MC_Prec ------------------------------
(***************************************************************************)
(* C12: expressions parse with the documented precedence and grouping.     *)
(* Every pair of adjacent binary operators in both groupings, every triple *)
(* in all five groupings (thorough: every chain of four operators in all   *)
(* fourteen groupings), every prefix / infix / index / call combination, *)
(* ternaries around and inside binary operators, and assignments (plain    *)
(* and compound) whose right-hand side is a compound expression.  Each     *)
(* tree is printed with minimal and with full parenthesisation; TLC checks *)
(* that the model grammar reads both back as the same tree, and the        *)
(* harness demands the same of the real parser.                            *)
(***************************************************************************)
EXTENDS EFParser, Json

CONSTANT Tier,
         Seed      \* >= 1: shifts which part of a sampled family is taken (1 = the default sample)

VARIABLE row
vars == <<row>>

NB == Len(BinOpList)
NP == Len(PrefixOps)
Id(n) == <<"id", n>>
Bn(o, l, r) == <<"bin", o, l, r>>
Un(o, e) == <<"un", o, e>>
Ix(e, i) == <<"idx", e, i>>
Cl(f, as) == <<"call", f, as>>
Tn(c, a, b) == <<"tern", c, a, b>>
A == Id("a")  B == Id("b")  C == Id("c")  D == Id("d")  E5 == Id("e")

\* every grouping of a chain of operators over leaves in order (Catalan many: 14 for four operators)
RECURSIVE AllTrees(_, _)
AllTrees(ops, leaves) ==
  IF Len(ops) = 0 THEN {leaves[1]}
  ELSE UNION {{Bn(ops[i], l, r) : l \in AllTrees(SubSeq(ops, 1, i - 1), SubSeq(leaves, 1, i)),
                                  r \in AllTrees(SubSeq(ops, i + 1, Len(ops)), SubSeq(leaves, i + 1, Len(leaves)))}
              : i \in 1..Len(ops)}

Group3(sh, o1, o2, o3) ==
  CASE sh = 1 -> Bn(o1, A, Bn(o2, B, Bn(o3, C, D)))
    [] sh = 2 -> Bn(o1, A, Bn(o3, Bn(o2, B, C), D))
    [] sh = 3 -> Bn(o2, Bn(o1, A, B), Bn(o3, C, D))
    [] sh = 4 -> Bn(o3, Bn(o1, A, Bn(o2, B, C)), D)
    [] sh = 5 -> Bn(o3, Bn(o2, Bn(o1, A, B), C), D)

\* shapes mixing one binary operator o with prefix u, index, call and ternary
NMixed == 24
Mixed(m, o, u) ==
  CASE m = 1  -> Un(u, Bn(o, A, B))
    [] m = 2  -> Bn(o, Un(u, A), B)
    [] m = 3  -> Bn(o, A, Un(u, B))
    [] m = 4  -> Un(u, Un("-", A))
    [] m = 5  -> Ix(Bn(o, A, B), C)
    [] m = 6  -> Bn(o, Ix(A, C), B)
    [] m = 7  -> Bn(o, A, Ix(B, C))
    [] m = 8  -> Un(u, Ix(A, B))
    [] m = 9  -> Ix(Un(u, A), B)
    [] m = 10 -> Cl("f", <<Bn(o, A, B), C>>)
    [] m = 11 -> Bn(o, Cl("f", <<A>>), B)
    [] m = 12 -> Bn(o, A, Cl("g", <<>>))
    [] m = 13 -> Ix(Ix(A, B), C)
    [] m = 14 -> Ix(Cl("f", <<A>>), Bn(o, B, C))
    [] m = 15 -> Tn(Bn(o, A, B), C, D)
    [] m = 16 -> Tn(A, Bn(o, B, C), D)
    [] m = 17 -> Tn(A, B, Bn(o, C, D))
    [] m = 18 -> Bn(o, Tn(A, B, C), D)
    [] m = 19 -> Bn(o, A, Tn(B, C, D))
    [] m = 20 -> Un(u, Tn(A, B, C))
    [] m = 21 -> Tn(Un(u, A), Un(u, B), Un(u, C))
    [] m = 22 -> Ix(Tn(A, B, C), D)
    [] m = 23 -> Cl("f", <<Tn(A, B, C), Un(u, D)>>)
    [] m = 24 -> Un(u, Cl("f", <<Bn(o, A, B)>>))

MkRow(kind, t) ==
  [k |-> kind, tree |-> t, min |-> Min(t), full |-> Full(t), leafy |-> Leafy(t), stmt |-> "expr", done |-> TRUE]

\* assignments: the whole expression to the right is the value
MkAsg(op, t) ==
  [k |-> "assign", tree |-> <<"asg", op, "x", t>>, min |-> <<"x", op>> \o Min(t), full |-> <<"x", op>> \o Full(t),
   leafy |-> <<"x", op>> \o Leafy(t), stmt |-> "assign", done |-> TRUE]

\* ---- nested ternaries: texts which must be rejected ------------------------------------------
\* an inner ternary written without parentheses in the else arm, in the then arm and in the condition's
\* place after a complete ternary, the then arm of the outer one starting with every kind of token
ArmStarts == << <<"b">>, <<"(", "b", ")">>, <<"-", "b">>, <<"!", "b">>, <<"f", "(", "b", ")">>, <<"b", "[", "c", "]">>,
                <<"(", "b", ")", "+", "c">>, <<"-", "b", "*", "c">>, <<"b", "+", "c">> >>
NestedToks(shape, arm) ==
  CASE shape = 1 -> <<"a", "?">> \o arm \o <<":", "c", "?", "d", ":", "e">>                    \* in the else arm
    [] shape = 2 -> <<"a", "?">> \o arm \o <<"?", "c", ":", "d", ":", "e">>                    \* in the then arm
    [] shape = 3 -> <<"a", "?">> \o arm \o <<":", "c", "+", "d", "?", "e", ":", "a">>          \* in the else arm, after an operator
    [] shape = 4 -> <<"f", "(", "a", "?">> \o arm \o <<":", "c", "?", "d", ":", "e", ")">>     \* inside a call
    [] shape = 5 -> <<"x", "+", "a", "?">> \o arm \o <<":", "-", "c", "?", "d", ":", "e">>
    \* the inner ternary inside an argument list, an array literal or a hash literal written in an arm
    [] shape = 6 -> <<"a", "?", "f", "(", "b", "?", "c", ":", "d", ")", ":", "e">>
    [] shape = 7 -> <<"a", "?", "b", ":", "f", "(", "c", "?", "d", ":", "e", ")">>
    [] shape = 8 -> <<"a", "?", "g", "(", "x", ",", "b", "?", "c", ":", "d", ")", ":", "e">>
    [] shape = 9 -> <<"a", "?", "[", "b", "?", "c", ":", "d", "]", ":", "e">>
    [] shape = 10 -> <<"a", "?", "{", "\"k\"", ":", "b", "?", "c", ":", "d", "}", ":", "e">>
    [] shape = 11 -> <<"a", "?", "b", ":", "x", "[", "c", "?", "d", ":", "e", "]">>
NestedRow(shape, a) == [k |-> "nested", tree |-> <<"none">>, min |-> NestedToks(shape, ArmStarts[a]), full |-> <<>>, leafy |-> <<>>,
                        stmt |-> "reject", done |-> TRUE]
AsgOps == <<"=", "+=", "-=", "*=", "/=">>

Init ==
  \/ \E o1 \in 1..NB : row = [k |-> "pair0", o1 |-> BinOpList[o1], done |-> FALSE]
  \/ \E o1 \in 1..NB, sh \in 1..5 : row = [k |-> "triple0", o1 |-> BinOpList[o1], sh |-> sh, done |-> FALSE]
  \/ \E m \in 1..NMixed : row = [k |-> "mixed0", m |-> m, done |-> FALSE]
  \/ /\ Tier = "thorough"
     /\ \E o1 \in 1..NB, o2 \in 1..NB : row = [k |-> "quad0", o1 |-> o1, o2 |-> o2, done |-> FALSE]
  \/ \E a \in 1..Len(AsgOps) : row = [k |-> "asg0", op |-> AsgOps[a], done |-> FALSE]
  \/ \E sh \in 1..11 : row = [k |-> "nest0", sh |-> sh, done |-> FALSE]

Next ==
  /\ ~row.done
  /\ \/ /\ row.k = "pair0"
        /\ \E o2 \in 1..NB, left \in BOOLEAN :
             row' = MkRow("pair", IF left THEN Bn(BinOpList[o2], Bn(row.o1, A, B), C) ELSE Bn(row.o1, A, Bn(BinOpList[o2], B, C)))
     \/ /\ row.k = "triple0"
        /\ \E o2 \in 1..NB, o3 \in 1..NB :
             /\ (Tier = "thorough" \/ (o2 + 3 * o3 + row.sh + Seed - 1) % 6 = 0)
             /\ row' = MkRow("triple", Group3(row.sh, row.o1, BinOpList[o2], BinOpList[o3]))
     \/ /\ row.k = "quad0"
        /\ \E o3 \in 1..NB, o4 \in 1..NB :
             /\ \E t \in AllTrees(<<BinOpList[row.o1], BinOpList[row.o2], BinOpList[o3], BinOpList[o4]>>, <<A, B, C, D, E5>>) :
                  row' = MkRow("quad", t)
     \/ /\ row.k = "nest0"
        /\ \E a \in 1..Len(ArmStarts) : (row.sh <= 5 \/ a = 1) /\ row' = NestedRow(row.sh, a)
     \/ /\ row.k = "mixed0"
        /\ \E o \in 1..NB, u \in 1..NP : row' = MkRow("mixed", Mixed(row.m, BinOpList[o], PrefixOps[u]))
     \/ /\ row.k = "asg0"
        /\ \/ \E o \in 1..NB : row' = MkAsg(row.op, Bn(BinOpList[o], A, B))
           \/ \E o \in 1..NB, o2 \in 1..NB : (o + o2 + Seed - 1) % 3 = 0 /\ row' = MkAsg(row.op, Bn(BinOpList[o], A, Bn(BinOpList[o2], B, C)))
           \/ row' = MkAsg(row.op, Tn(A, B, C))
           \/ \E o \in 1..NB : row' = MkAsg(row.op, Tn(Bn(BinOpList[o], A, B), C, D))
           \/ \E u \in 1..NP : row' = MkAsg(row.op, Un(PrefixOps[u], Ix(A, B)))

Spec == Init /\ [][Next]_vars

\* ---- checked on the model: the printer is the inverse of the grammar --------------
ExprTree(r) == IF r.stmt = "assign" THEN r.tree[4] ELSE r.tree
ExprToks(r, ts) == IF r.stmt = "assign" THEN SubSeq(ts, 3, Len(ts)) ELSE ts
RoundTrip == (row.done /\ row.stmt # "reject") =>
                         /\ Parse(ExprToks(row, row.min)) = ExprTree(row)
                         /\ Parse(ExprToks(row, row.full)) = ExprTree(row)
                         /\ Parse(ExprToks(row, row.leafy)) = ExprTree(row)
\* the model grammar refuses every nested ternary
NestedRejected == (row.done /\ row.stmt = "reject") => Parse(row.min) = PERR

\* regrouping a pair of operators changes the minimal text, i.e. parentheses are needed
\* exactly when they regroup
RegroupDiffers ==
  (row.done /\ row.k = "pair") =>
     LET t == row.tree IN
     IF t[3][1] = "bin"      \* (a o1 b) o2 c : the other grouping is a o1 (b o2 c)
     THEN Min(t) # Min(Bn(t[3][2], t[3][3], Bn(t[2], t[3][4], t[4])))
     ELSE Min(t) # Min(Bn(t[4][2], Bn(t[2], t[3], t[4][3]), t[4][4]))

Export == row.done => PrintT(<<"ROW", ToJson(row)>>)
=============================================================================
