------------------------------ MODULE MC_Alias ------------------------------
(***************************************************************************)
(* C15: numbers, strings and booleans are values, not shared cells.        *)
(* Data-flow shapes which copy a value (assignment, parameter passing,     *)
(* array element, hash value, foreach variable, object field, a literal in *)
(* a loop body, a literal in a function called twice, a copy taken between *)
(* two mutations) x source literal on both sides of the inline-integer     *)
(* limit, floats, strings x mutation (++ -- += -= *= /=) applied to one    *)
(* copy, executed three times on one evaluator; afterwards every holder is *)
(* read.  EFSemantics (value semantics) is the oracle.                     *)
(***************************************************************************)
EXTENDS EFCorpus, Json

CONSTANT Tier,
         Seed      \* (not used by this corpus: nothing in it is sampled)

VARIABLE row
vars == <<row>>

Fuel == 40
Host == <<<<"t", <<"log">>>>>>

Sources0 == << I(5), I(0), I(65534), I(65535), I(70000), I(-3), F(3, 2), F(5, 2), S(<<115>>) >>
\* thorough: more boundaries, an empty and a longer string, a boolean (every mutation of it is an error)
Sources == IF Tier = "thorough"
           THEN Sources0 \o << I(1), I(-1), I(2), I(255), I(256), I(65533), I(65536), I(1000000), I(-70000),
                                F(1, 2), F(-7, 2), F(1, 4), F(131071, 2), S(<<>>), S(<<97, 98>>), S(<<48>>), B(TRUE) >>
           ELSE Sources0
Muts    == << <<"post", "++">>, <<"post", "--">>, <<"casg", "+=">>, <<"casg", "-=">>, <<"casg", "*=">>, <<"casg", "/=">> >>

\* the statement which mutates variable n; strings are only concatenated
MutStmt(m, n, src) ==
  IF m[1] = "post" THEN <<"post", m[2], n>>
  ELSE <<"casg", m[2], n, IF IsStr(src) THEN LitS(<<120>>) ELSE LitI(2)>>

L(v) == <<"lit", v>>
Arr(es) == <<"arr", es>>

NShapes == 16
Shape(sh, src, m) ==
  LET mu(n) == MutStmt(m, n, src) IN
  CASE sh = 1  -> <<Asg("a", L(src)), Asg("b", Ref("a")), mu("b"), Ret(Arr(<<Ref("a"), Ref("b")>>))>>
    [] sh = 2  -> <<Asg("a", L(src)), Asg("b", Ref("a")), mu("a"), Ret(Arr(<<Ref("a"), Ref("b")>>))>>
    [] sh = 3  -> <<<<"func", "f", <<"p">>, <<mu("p"), Ret(Ref("p"))>>>>,
                    Asg("a", L(src)), Asg("r", CallE("f", <<Ref("a")>>)), Ret(Arr(<<Ref("a"), Ref("r")>>))>>
    [] sh = 4  -> <<Asg("a", L(src)), Asg("arr", Arr(<<Ref("a"), LitI(1)>>)), mu("a"),
                    Ret(Arr(<<BinE("[]", Ref("arr"), LitI(0)), Ref("a")>>))>>
    [] sh = 5  -> <<Asg("a", L(src)), Asg("h", <<"hash", <<<<LitS(<<107>>), Ref("a")>>>>>>), mu("a"),
                    Ret(Arr(<<BinE("[]", Ref("h"), LitS(<<107>>)), Ref("a")>>))>>
    [] sh = 6  -> <<ForEach("", "x", Arr(<<L(src), L(src)>>), <<mu("x"), TE(Ref("x"))>>), Ret(Arr(<<L(src)>>))>>
    [] sh = 7  -> <<mu("F1"), Ret(Arr(<<Ref("F1")>>))>>                                   \* F1 is a field of the object
    [] sh = 8  -> <<Asg("a", L(src)), mu("a"), Ret(Ref("a"))>>
    [] sh = 9  -> <<<<"func", "g", <<>>, <<Asg("x", L(src)), mu("x"), Ret(Ref("x"))>>>>,
                    Ret(Arr(<<CallE("g", <<>>), CallE("g", <<>>)>>))>>
    [] sh = 10 -> <<Asg("i", L(src)), mu("i"), Asg("b", Ref("i")), mu("i"), Ret(Arr(<<Ref("b"), Ref("i")>>))>>
    [] sh = 11 -> <<Asg("i", L(src)), mu("i"), Asg("c", Arr(<<Ref("i")>>)), mu("i"), mu("i"),
                    Ret(Arr(<<BinE("[]", Ref("c"), LitI(0)), Ref("i")>>))>>
    [] sh = 12 -> <<Asg("a", L(src)), Asg("n", LitI(0)),
                    While(BinE("<", Ref("n"), LitI(3)), <<Asg("k", L(src)), mu("k"), TE(Ref("k")), Bump("n")>>),
                    Ret(Arr(<<Ref("a"), L(src)>>))>>
    [] sh = 13 -> <<Asg("a", L(src)), ForEach("", "x", Arr(<<Ref("a"), Ref("a")>>), <<mu("x")>>),
                    mu("a"), Ret(Arr(<<Ref("a"), L(src)>>))>>
    [] sh = 14 -> <<<<"func", "f", <<"p">>, <<mu("p"), Ret(Ref("p"))>>>>,
                    Asg("arr", Arr(<<L(src)>>)), Asg("r", CallE("f", <<BinE("[]", Ref("arr"), LitI(0))>>)),
                    Ret(Arr(<<BinE("[]", Ref("arr"), LitI(0)), Ref("r"), L(src)>>))>>
    \* a copy of a FIELD taken before the field's own name is mutated, alone and inside a container
    [] sh = 15 -> <<Asg("b", Ref("F1")), mu("F1"), Ret(Arr(<<Ref("b"), Ref("F1")>>))>>
    [] sh = 16 -> <<Asg("c", Arr(<<Ref("F1"), LitI(1)>>)), mu("F1"), mu("F1"), Ret(Arr(<<BinE("[]", Ref("c"), LitI(0)), Ref("F1")>>))>>

\* thorough: after every mutation of a variable a second mutation m2 of the same variable
RECURSIVE Again(_, _, _)
Again(stmts, m2, src) ==
  IF Len(stmts) = 0 THEN <<>>
  ELSE LET st == stmts[1]  rest == Again(Tail(stmts), m2, src) IN
       CASE st[1] \in {"post", "casg"} -> <<st, MutStmt(m2, st[3], src)>> \o rest
         [] st[1] = "func" -> <<<<"func", st[2], st[3], Again(st[4], m2, src)>>>> \o rest
         [] st[1] = "foreach" -> <<<<"foreach", st[2], st[3], st[4], Again(st[5], m2, src)>>>> \o rest
         [] st[1] = "while" -> <<<<"while", st[2], Again(st[3], m2, src)>>>> \o rest
         [] OTHER -> <<st>> \o rest

RECURSIVE RunSeq(_, _, _, _, _)
RunSeq(prog, obj, n, i, g) ==
  IF i > n THEN <<>>
  ELSE LET r == RunProgram(prog, g, obj, Host, Fuel) IN
       <<[obj |-> obj, exp |-> [out |-> r.out, calls |-> r.calls, vars |-> r.g]]>> \o RunSeq(prog, obj, n, i + 1, r.g)

Row(sh, src, m, m2) ==
  LET prog == IF m2 = 0 THEN Shape(sh, src, m) ELSE Again(Shape(sh, src, m), Muts[m2], src)
      obj  == IF sh \in {7, 15, 16} THEN <<<<"F1", src>>>> ELSE <<>>
  IN [k |-> "alias", sh |-> sh, prog |-> prog, fns |-> Host, vars |-> <<>>, errvars |-> TRUE,
      runs |-> RunSeq(prog, obj, 3, 1, <<>>), done |-> TRUE]

Init == \E sh \in 1..NShapes, s \in 1..Len(Sources) : row = [k |-> "a0", sh |-> sh, src |-> Sources[s], done |-> FALSE]

Next == /\ ~row.done
        /\ \E m \in 1..Len(Muts), m2 \in 0..Len(Muts) :
             /\ (Tier = "thorough" \/ m2 = 0)
             /\ row' = Row(row.sh, row.src, Muts[m], m2)

Spec == Init /\ [][Next]_vars

\* ---- checked on the model: the literal denotes the same value in every run -----------
\* shape 8 returns the same result in each of its runs (the variable is re-initialised from the literal)
LiteralStable == (row.done /\ row.sh \in {1, 2, 3, 4, 5, 8, 9, 10, 11, 12, 13, 14}) =>
                    /\ row.runs[1].exp.out = row.runs[2].exp.out
                    /\ row.runs[2].exp.out = row.runs[3].exp.out

Export == row.done => PrintT(<<"ROW", ToJson(row)>>)
=============================================================================
