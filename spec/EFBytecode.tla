----------------------------- MODULE EFBytecode -----------------------------
(***************************************************************************)
(* The instruction set of the evalfilter virtual machine (BYTECODE.md,     *)
(* code/code.go): opcode numbers, operand widths and stack effects.        *)
(* Programs are sequences of bytes (naturals 0..255); a body is decoded    *)
(* linearly from offset 0; instructions are 1 byte, or 3 bytes with a      *)
(* big-endian 16-bit operand.                                              *)
(***************************************************************************)
EXTENDS Integers, Sequences, FiniteSets

OpConstant == 0      OpJump == 1          OpJumpIfFalse == 2   OpCall == 3
OpLookup == 4        OpPush == 5          OpArray == 6         OpHash == 7
OpNop == 8           OpPlaceholder == 9   OpSet == 10          OpLocal == 11
OpTrue == 12         OpFalse == 13        OpVoid == 14         OpCase == 15
OpAdd == 16          OpSub == 17          OpMul == 18          OpDiv == 19
OpMod == 20          OpPower == 21        OpInc == 22          OpDec == 23
OpReturn == 24       OpMinus == 25        OpBang == 26         OpSquareRoot == 27
OpLess == 28         OpLessEqual == 29    OpGreater == 30      OpGreaterEqual == 31
OpEqual == 32        OpNotEqual == 33     OpMatches == 34      OpNotMatches == 35
OpAnd == 36          OpOr == 37           OpIndex == 38        OpArrayIn == 39
OpIterationReset == 40  OpIterationNext == 41  OpRange == 42
MaxOpcode == 42

WideOps == {OpConstant, OpJump, OpJumpIfFalse, OpCall, OpLookup, OpPush, OpArray, OpHash, OpInc, OpDec}
OpLen(op) == IF op \in WideOps THEN 3 ELSE 1

BinaryOps == {OpAdd, OpSub, OpMul, OpDiv, OpMod, OpPower, OpLess, OpLessEqual, OpGreater, OpGreaterEqual,
              OpEqual, OpNotEqual, OpMatches, OpNotMatches, OpAnd, OpOr, OpArrayIn, OpIndex, OpCase, OpRange}
UnaryOps  == {OpMinus, OpBang, OpSquareRoot}
PushOps   == {OpConstant, OpLookup, OpPush, OpTrue, OpFalse, OpVoid}

\* the byte at 0-based offset i of body c
ByteAt(c, i) == c[i + 1]
\* the 16-bit operand of the instruction at 0-based offset i
ArgAt(c, i) == ByteAt(c, i + 1) * 256 + ByteAt(c, i + 2)

\* Linear decode: the set of instruction start offsets; it contains -1 when an unknown
\* opcode is met and -2 when an operand runs past the end of the body.  The body is decoded
\* in chunks so that the recursion stays shallow for bodies of tens of thousands of bytes.
RECURSIVE Chunk(_, _, _)
Chunk(c, i, lim) ==             \* <<starts in [i, lim), offset where the next chunk begins>>
  IF i >= Len(c) \/ i >= lim THEN <<{}, i>>
  ELSE LET op == ByteAt(c, i) IN
       IF op > MaxOpcode THEN <<{-1}, Len(c)>>
       ELSE IF i + OpLen(op) > Len(c) THEN <<{-2}, Len(c)>>
       ELSE LET r == Chunk(c, i + OpLen(op), lim) IN <<{i} \cup r[1], r[2]>>

RECURSIVE Starts(_, _)
Starts(c, i) == IF i >= Len(c) THEN {}
                ELSE LET r == Chunk(c, i, i + 600) IN r[1] \cup Starts(c, r[2])
=============================================================================
