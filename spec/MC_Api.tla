------------------------------- MODULE MC_Api -------------------------------
(***************************************************************************)
(* C20: the embedding API as a state machine.                              *)
(*   state   vars (variables held by the evaluator), host (functions the   *)
(*           host added), prepared / optimise flag                         *)
(*   actions SetVariable(n, v)  AddFunction(n, kind)  Prepare(optimise)    *)
(*           Run(obj)  Execute(obj)  GetVariable(n)                        *)
(* Every action returns an ordinary value; Run is the truth value of what  *)
(* Execute returns for the same object and fails exactly when it does; a   *)
(* variable given with SetVariable is what the script reads; GetVariable   *)
(* returns what the script last assigned (null if never); a host function  *)
(* is called once per call with the script's arguments in order, and its   *)
(* result - or nothing, for void - is the call's value; NoOptimize changes *)
(* nothing observable.  TLC enumerates configurations and action           *)
(* sequences; EFSemantics gives the expected observation of every action.  *)
(***************************************************************************)
EXTENDS EFCorpus, Json

CONSTANT Tier,
         Seed      \* >= 1: shifts which part of a sampled family is taken (1 = the default sample)

VARIABLE row
vars == <<row>>

Fuel == 30
Sx == S(<<115>>)

\* script 1 uses the result of the host function; script 2 only calls it (so it may be void)
\* (both read the field G first: a field has been looked up before the names v, n and F - variables, possibly
\* shadowing a field - are)
Script1 == << Asg("y", Ref("G")), Asg("x", Ref("v")), Bump("n"),
              Asg("r", CallE("h", <<LitI(1), Ref("v"), <<"lit", Sx>>, Ref("F")>>)),
              Ret(Ref("r")) >>
Script2 == << Asg("y", Ref("G")), Asg("x", Ref("v")), Bump("n"),
              <<"expr", CallE("h", <<Ref("n"), Ref("v")>>)>>,
              <<"expr", CallE("h", <<Ref("F")>>)>>,
              Ret(<<"arr", <<Ref("v"), Ref("n")>>>>) >>
Script3 == << Ret(Ref("v")) >>                      \* the verdict of Run for every kind of value

VVals == << I(5), I(0), I(-2), F(3, 2), F(0, 1), Sx, S(<<>>), B(TRUE), B(FALSE), N, A(<<I(1)>>), A(<<>>), H(<<<<Sx, I(1)>>>>), H(<<>>) >>
HKinds == << <<"val", I(7)>>, <<"val", B(FALSE)>>, <<"val", N>>, <<"val", Sx>>, <<"log">>, <<"same">>, <<"single", B(TRUE)>>, <<"single", N>>, <<"pack">> >>
\* what the specification's host table holds for a kind
HostKind(k) == IF k[1] = "single" THEN <<"val", k[2]>> ELSE k

Objs == << <<<<"F", I(10)>>, <<"G", I(1)>>>>, <<<<"F", Sx>>, <<"G", I(2)>>>>, <<>> >>

\* post-Prepare actions
Acts == << <<"run", 1>>, <<"run", 2>>, <<"exec", 1>>, <<"exec", 2>>, <<"exec", 3>>, <<"get", "x">>, <<"get", "n">>, <<"get", "r">>, <<"get", "zz">>,
           <<"set", "v", I(9)>>, <<"set", "n", I(100)>>, <<"set", "v", N>>, <<"set", "F", Sx>>, <<"set", "F", N>>,
           \* AddFunction again under the name of the host function: from then on the new one is called
           <<"fn", <<"val", I(42)>>>>, <<"fn", <<"log">>>> >>
NActs == Len(Acts)

Prog(sc) == CASE sc = 1 -> Script1 [] sc = 2 -> Script2 [] sc = 3 -> Script3

\* apply the post-Prepare actions in order: the sequence of [act, arg..., exp] and the variables
RECURSIVE Steps(_, _, _, _, _)
Steps(sc, as, i, g, host) ==
  IF i > Len(as) THEN <<>>
  ELSE LET a == Acts[as[i]] IN
       IF a[1] \in {"run", "exec"} THEN
            (LET obj == Objs[a[2]]
                 r == RunProgram(Prog(sc), g, obj, host, Fuel)
                 out == IF a[1] = "run" /\ Defined(r.out) THEN B(Truthy(r.out)) ELSE r.out
             IN <<[act |-> a[1], obj |-> obj, nilobj |-> (a[2] = 3), exp |-> [out |-> out, calls |-> r.calls, vars |-> r.g]]>>
                  \o Steps(sc, as, i + 1, r.g, host))
       ELSE IF a[1] = "get" THEN
            <<[act |-> "get", name |-> a[2], exp |-> [out |-> IF Has(g, a[2]) THEN Get(g, a[2]) ELSE N]]>> \o Steps(sc, as, i + 1, g, host)
       ELSE IF a[1] = "fn" THEN
            <<[act |-> "fn", name |-> "h", kind |-> a[2]]>> \o Steps(sc, as, i + 1, g, <<<<"h", a[2]>>>>)
       ELSE <<[act |-> "set", name |-> a[2], val |-> a[3]]>> \o Steps(sc, as, i + 1, Put(g, a[2], a[3]), host)

Row(sc, v, hk, opt, withN, as) ==
  LET g0 == (IF withN THEN <<<<"n", I(0)>>>> ELSE <<>>) \o <<<<"v", VVals[v]>>>>
      host == <<<<"h", HostKind(HKinds[hk])>>>>
  IN [k |-> "api", script |-> sc, prog |-> Prog(sc), vars |-> g0, fns |-> <<<<"h", HKinds[hk]>>>>, optimise |-> opt,
      errvars |-> TRUE, steps |-> Steps(sc, as, 1, g0, host), done |-> TRUE]

Init == \E sc \in 1..3, v \in 1..Len(VVals) : row = [k |-> "a0", sc |-> sc, v |-> v, done |-> FALSE]

Next ==
  /\ ~row.done
  /\ \E hk \in 1..Len(HKinds), opt \in BOOLEAN, withN \in BOOLEAN :
       /\ (row.sc = 3 => hk = 1 /\ withN)
       /\ \/ \E a1 \in 1..NActs : row' = Row(row.sc, row.v, hk, opt, withN, <<a1>>)
          \/ \E a1 \in 1..NActs, a2 \in 1..NActs :
               /\ (Tier = "thorough" \/ (a1 + 3 * a2 + row.v + hk + Seed - 1) % 11 = 0)
               /\ row' = Row(row.sc, row.v, hk, opt, withN, <<a1, a2>>)
          \/ \E a1 \in 1..NActs, a2 \in 1..NActs, a3 \in 1..NActs :
               /\ (IF Tier = "thorough" THEN (a1 + 3 * a2 + 5 * a3 + row.v + hk + Seed - 1) % 7 = 0 ELSE (a1 + 3 * a2 + 5 * a3 + row.v + hk + Seed - 1) % 97 = 0)
               /\ row' = Row(row.sc, row.v, hk, opt, withN, <<a1, a2, a3>>)

Spec == Init /\ [][Next]_vars

\* ---- checked on the model -------------------------------------------------------------
\* Run is the truth value of what Execute gives from the same state, and fails iff it fails:
\* two consecutive steps "exec o" / "run o" from equal variables
RunIsTruthOfExecute ==
  row.done => \A i \in 1..Len(row.steps) :
     (row.steps[i].act = "run") =>
        LET o == row.steps[i].exp.out IN IsErr(o) \/ IsSkip(o) \/ Tag(o) = "DIVERGE" \/ IsBool(o)

Export == row.done => PrintT(<<"ROW", ToJson(row)>>)
=============================================================================
