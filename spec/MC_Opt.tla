------------------------------- MODULE MC_Opt -------------------------------
(***************************************************************************)
(* C03: the constant-placement corpus.  The instrumented constructs of     *)
(* EFSyntax with their conditions replaced by constant conditions -        *)
(* literals, constant comparisons, folded arithmetic comparisons, values   *)
(* around the inline-integer limit - placed inside, before and after every *)
(* other construct.  The reference semantics gives the outcome; the harness*)
(* additionally demands that the optimised and the unoptimised evaluator   *)
(* agree run by run.                                                       *)
(***************************************************************************)
EXTENDS EFSyntax, Json

CONSTANT Tier,
         Seed      \* >= 1: shifts which part of a sampled family is taken (1 = the default sample)

VARIABLE row
vars == <<row>>

Fuel == 80
Host == <<<<"t", <<"log">>>>>>
Inner(j) == <<T(900 + j), Asg("r", BinE("+", Ref("r"), BinE("-", BinE("*", LitI(2), LitI(3)), LitI(5))))>>
Wrap(body) == <<Asg("r", LitI(0)), T(1)>> \o body \o <<T(2), Ret(Ref("r"))>>

\* constant conditions: index 0 stands for "the object's field"
ConstConds == <<
  LitB(TRUE), LitB(FALSE),
  BinE("==", LitI(1), LitI(1)), BinE("!=", LitI(1), LitI(1)),
  BinE("==", BinE("*", LitI(2), LitI(3)), LitI(6)),
  BinE("==", BinE("-", LitI(7), LitI(7)), LitI(1)),
  BinE("==", BinE("+", LitI(65534), LitI(1)), LitI(65535)),
  BinE("!=", BinE("-", LitI(3), LitI(5)), BinE("-", LitI(0), LitI(2))),
  LitI(1), LitI(0), LitS(<<>>), LitS(<<97>>)
>>
NC == Len(ConstConds)

CondOf(j, m) == IF m = 0 THEN Ref(CName[j]) ELSE ConstConds[m]

CKinds == {k \in 1..NKinds : UsesC(k)}

Prog(shape, k1, m1, k2, m2) ==
  LET OuterC(body) == MkC(k1, 1, body, CondOf(1, m1), CondOf(1, IF m1 = 0 THEN 0 ELSE (m1 % NC) + 1))
      InnerC(body) == MkC(k2, 2, body, CondOf(2, m2), CondOf(2, IF m2 = 0 THEN 0 ELSE (m2 % NC) + 1))
  IN CASE shape = "nest2" -> Wrap(OuterC(InnerC(Inner(2))))
       [] shape = "seq2"  -> Wrap(OuterC(Inner(1)) \o InnerC(Inner(2)))
       [] shape = "first" -> OuterC(InnerC(<<T(902)>>)) \o <<Ret(LitI(7))>>      \* nothing in front of the construct

FieldsOf(k1, m1, k2, m2) ==
  (IF m1 = 0 /\ UsesC(k1) THEN <<"C1">> ELSE <<>>) \o (IF m1 = 0 /\ UsesD(k1) THEN <<"D1">> ELSE <<>>) \o
  (IF m2 = 0 /\ UsesC(k2) THEN <<"C2">> ELSE <<>>) \o (IF m2 = 0 /\ UsesD(k2) THEN <<"D2">> ELSE <<>>)

RECURSIVE Objs(_)
Objs(fs) == IF Len(fs) = 0 THEN <<<<>>>>
            ELSE LET rest == Objs(Tail(fs)) IN
                 [i \in 1..(2 * Len(rest)) |->
                    IF i <= Len(rest) THEN <<<<fs[1], B(TRUE)>>>> \o rest[i]
                                      ELSE <<<<fs[1], B(FALSE)>>>> \o rest[i - Len(rest)]]

RECURSIVE RunSeq(_, _, _, _)
RunSeq(prog, objs, i, g) ==
  IF i > Len(objs) THEN <<>>
  ELSE LET r == RunProgram(prog, g, objs[i], Host, Fuel) IN
       <<[obj |-> objs[i], exp |-> [out |-> r.out, calls |-> r.calls, vars |-> r.g]]>>
         \o RunSeq(prog, objs, i + 1, r.g)

\* every program is run over all assignments of the fields it still reads, twice over
Row(shape, k1, m1, k2, m2) ==
  LET prog == Prog(shape, k1, m1, k2, m2)
      objs == Objs(FieldsOf(k1, m1, k2, m2)) IN
  [k |-> "opt", shape |-> shape, ks |-> <<k1, m1, k2, m2>>, prog |-> prog, fns |-> Host,
   runs |-> RunSeq(prog, objs \o objs, 1, <<>>), done |-> TRUE]

\* ---- literals at the join of a ternary ---------------------------------------------------
\* The arms of a ternary end in "push literal"; what follows the ternary is constant arithmetic the optimizer
\* looks at.  The literals cover every opcode number (a byte of an operand must never be taken for an
\* instruction) and the boundaries of the inline operand.
JoinLits == [i \in 1..46 |-> i - 1] \o <<255, 256, 265, 521, 2313, 65534>>
NJ == Len(JoinLits)
JoinProg(a, b) ==
  LET tn(x, y) == <<"tern", Ref("C1"), LitI(x), LitI(y)>> IN
  <<Asg("r", BinE("+", tn(a, b), LitI(3))), TE(Ref("r")),
    Asg("x", BinE("*", tn(b, a), LitI(2))), TE(Ref("x")),
    If(BinE("==", tn(a, b), LitI(9)), <<T(7)>>),
    Ret(<<"arr", <<Ref("r"), Ref("x"), BinE("-", tn(a, b), LitI(0)), BinE("+", LitI(1), tn(b, a))>>>>)>>
JoinRow(a, b) ==
  LET prog == JoinProg(a, b)
      objs == <<<<<<"C1", B(TRUE)>>>>, <<<<"C1", B(FALSE)>>>>>> IN
  [k |-> "opt", shape |-> "join", ks |-> <<a, b>>, prog |-> prog, fns |-> Host,
   runs |-> RunSeq(prog, objs, 1, <<>>), done |-> TRUE]

\* ---- a block ending in "return literal" behind a condition the optimizer decides -------------------------
\* The bytes of the literal stand right in front of a jump target; every value of the high and of the low operand
\* byte which is also an opcode is tried (a pass which looks at bytes instead of instructions takes them for one).
RetLit(h, l) == h * 256 + l
RetProg(h, l, m, infn) ==
  LET blk == <<If(ConstConds[m], <<Ret(LitI(RetLit(h, l)))>>), If(Ref("C1"), <<Ret(LitI(3))>>), If(Ref("C2"), <<Ret(LitI(2))>>), Ret(LitI(1))>> IN
  IF infn THEN <<<<"func", "pick", <<>>, blk>>, Ret(BinE("+", CallE("pick", <<>>), LitI(0)))>> ELSE blk
RetRow(h, l, m, infn) ==
  LET prog == RetProg(h, l, m, infn)
      objs == <<<<<<"C1", B(TRUE)>>, <<"C2", B(FALSE)>>>>, <<<<"C1", B(FALSE)>>, <<"C2", B(TRUE)>>>>>> IN
  [k |-> "opt", shape |-> "retlit", ks |-> <<h, l, m>>, prog |-> prog, fns |-> Host,
   runs |-> RunSeq(prog, objs, 1, <<>>), done |-> TRUE]

Init == \/ \E h \in 0..45 : row = [k |-> "ret0", h |-> h, done |-> FALSE]
        \/ \E sh \in {"nest2", "seq2", "first"}, k1 \in 1..NKinds, m1 \in 0..NC :
             /\ (m1 > 0 => UsesC(k1))
             /\ row = [k |-> "opt0", shape |-> sh, k1 |-> k1, m1 |-> m1, done |-> FALSE]
        \/ \E a \in 1..NJ : row = [k |-> "join0", a |-> a, done |-> FALSE]

Next ==
  /\ ~row.done
  /\ \/ /\ row.k = "ret0"
        \* conditions 1, 3, 5: true, 1 == 1, 2 * 3 == 6 (decided true); 2: false (decided false)
        /\ \E l \in {0, 1, 2, 8, 9, 24, 255}, m \in {1, 2, 3, 5}, infn \in BOOLEAN :
             /\ (Tier = "thorough" \/ (row.h + l + m + Seed - 1) % 4 = 0 \/ row.h = 1)
             /\ row' = RetRow(row.h, l, m, infn)
     \/ /\ row.k = "join0"
        /\ \E b \in 1..NJ :
             /\ (Tier = "thorough" \/ (row.a + b + Seed - 1) % 3 = 0)
             /\ row' = JoinRow(JoinLits[row.a], JoinLits[b])
     \/ /\ row.k = "opt0"
        /\ \E k2 \in 1..NKinds, m2 \in 0..NC :
             /\ (m2 > 0 => UsesC(k2))
             /\ (row.m1 > 0 \/ m2 > 0)                       \* at least one constant condition
             /\ (Tier = "thorough" \/ (row.k1 + 3 * row.m1 + 5 * k2 + 7 * m2 + Seed - 1) % 6 = 0)
             /\ row' = Row(row.shape, row.k1, row.m1, k2, m2)

Spec == Init /\ [][Next]_vars

Specified == row.done => \A i \in 1..Len(row.runs) :
                ~IsSkip(row.runs[i].exp.out) /\ ~IsErr(row.runs[i].exp.out) /\ Tag(row.runs[i].exp.out) # "DIVERGE"

Export == row.done => PrintT(<<"ROW", ToJson(row)>>)
=============================================================================
