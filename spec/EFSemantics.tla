---------------------------- MODULE EFSemantics ----------------------------
(***************************************************************************)
(* Reference big-step semantics of evalfilter scripts: what a program      *)
(* means, written from the README and the property statements (C02, C05,   *)
(* C06, C07, C15, C16), independent of compiler, optimizer and VM.         *)
(*                                                                         *)
(* Abstract syntax (tagged tuples; the harness renders it to text):        *)
(*  expressions  <<"lit", v>> <<"ref", name>> <<"un", op, e>>              *)
(*               <<"bin", op, l, r>> <<"tern", c, a, b>>                   *)
(*               <<"call", name, args>> <<"arr", es>> <<"hash", pairs>>    *)
(*  statements   <<"ret", e>> <<"expr", e>> <<"asg", name, e>>             *)
(*               <<"casg", op, name, e>> <<"post", op, name>>              *)
(*               <<"local", name>> <<"if", c, blk, else, hasElse>>         *)
(*               <<"while", c, blk>> <<"foreach", idx, var, e, blk>>       *)
(*               <<"switch", e, cases>>  case: <<isDefault, exprs, blk>>   *)
(*               <<"func", name, params, blk>>                             *)
(*                                                                         *)
(* The state threaded through evaluation:                                  *)
(*   g      global variables, a sequence of <<name, value>>                *)
(*   sc     scope stack (innermost last), each a sequence of <<name, v>>   *)
(*   calls  host-function call log, a sequence of <<name, args>>           *)
(*   ret    <<"NONE">> or the value a `return` produced                    *)
(*   st     "ok" | "err" (run ends with an error) | "skip" (unconstrained  *)
(*          from here on) | "div" (out of fuel: a run that does not end)   *)
(*   fuel   bounds loops and calls                                         *)
(***************************************************************************)
EXTENDS EFBuiltins

NONE == <<"NONE">>

\* ---- association lists ---------------------------------------------------
Has(al, k)  == \E i \in 1..Len(al) : al[i][1] = k
Get(al, k)  == al[CHOOSE i \in 1..Len(al) : al[i][1] = k][2]
Put(al, k, v) == IF Has(al, k)
                 THEN [i \in 1..Len(al) |-> IF al[i][1] = k THEN <<k, v>> ELSE al[i]]
                 ELSE Append(al, <<k, v>>)

\* ---- static context of a run --------------------------------------------
\* ctx = [funcs |-> assoc name -> <<params, body>>, obj |-> assoc field -> value,
\*        host |-> assoc name -> kind]   kind: <<"log">> (returns nothing) | <<"pack">> (returns its arguments as an array) | <<"same">> (returns
\*        its first argument) | <<"val", v>> (returns v)
\* every function definition of the program, in textual order, wherever it is written
\* (definitions are hoisted: inside blocks and inside other functions too)
RECURSIVE FuncDefs(_, _), CaseDefs(_, _)
FuncDefs(blk, i) ==
  IF i > Len(blk) THEN <<>>
  ELSE LET st == blk[i] IN
       (CASE st[1] = "func" -> <<st>> \o FuncDefs(st[4], 1)
          [] st[1] = "if" -> FuncDefs(st[3], 1) \o FuncDefs(st[4], 1)
          [] st[1] \in {"while", "for"} -> FuncDefs(st[3], 1)
          [] st[1] = "foreach" -> FuncDefs(st[5], 1)
          [] st[1] = "switch" -> CaseDefs(st[3], 1)
          [] OTHER -> <<>>) \o FuncDefs(blk, i + 1)
CaseDefs(cs, i) == IF i > Len(cs) THEN <<>> ELSE FuncDefs(cs[i][3], 1) \o CaseDefs(cs, i + 1)

FuncsOf(prog) == LET defs == FuncDefs(prog, 1)
                     idx == 1..Len(defs) IN
                 \* later definitions of the same name replace earlier ones
                 [n \in {defs[i][2] : i \in idx} |->
                    LET last == CHOOSE i \in idx : defs[i][2] = n /\ \A j \in idx : defs[j][2] = n => j <= i
                    IN <<defs[last][3], defs[last][4]>>]

InitState(g, fuel) == [g |-> g, sc |-> <<>>, calls |-> <<>>, ret |-> NONE, st |-> "ok", fuel |-> fuel]

Live(s) == s.st = "ok" /\ s.ret = NONE

\* ---- variables -----------------------------------------------------------
StripDollar(n) == n     \* the legacy "$" prefix is not modelled

RECURSIVE ScopeIndex(_, _, _)
\* index of the innermost scope holding name, or 0
ScopeIndex(sc, name, i) == IF i = 0 THEN 0 ELSE IF Has(sc[i], name) THEN i ELSE ScopeIndex(sc, name, i - 1)

LookupVar(s, ctx, name) ==
  LET i == ScopeIndex(s.sc, name, Len(s.sc)) IN
  IF i > 0 THEN Get(s.sc[i], name)
  ELSE IF Has(s.g, name) THEN Get(s.g, name)
  ELSE IF Has(ctx.obj, name) THEN Get(ctx.obj, name)
  ELSE N

\* assignment writes the innermost scope which already has the name, else the globals
Assign(s, name, v) ==
  LET i == ScopeIndex(s.sc, name, Len(s.sc)) IN
  IF i > 0 THEN [s EXCEPT !.sc[i] = Put(s.sc[i], name, v)]
  ELSE [s EXCEPT !.g = Put(s.g, name, v)]

\* declaration binds in the innermost scope only (parameters, locals, loop variables)
Declare(s, name, v) == [s EXCEPT !.sc[Len(s.sc)] = Put(s.sc[Len(s.sc)], name, v)]

Fail(s)  == [s EXCEPT !.st = "err"]
Skip(s)  == [s EXCEPT !.st = IF s.st = "ok" THEN "skip" ELSE s.st]

\* fold an operator outcome into the state
Outcome(x, s) == IF IsErr(x) THEN [v |-> N, s |-> Fail(s)]
                 ELSE IF IsSkip(x) THEN [v |-> N, s |-> Skip(s)]
                 ELSE [v |-> x, s |-> s]

\* a value-less result (void) used where a value is needed: the machine underflows;
\* the statement excludes "the script's own use of value-less calls" - unconstrained
NeedValue(r) == IF r.v = V /\ r.s.st = "ok" THEN [v |-> N, s |-> Skip(r.s)] ELSE r

CompoundOp(op) == CASE op = "+=" -> "+" [] op = "-=" -> "-" [] op = "*=" -> "*" [] op = "/=" -> "/"

\* iteration sequence of a container: <<index-or-key, element>> pairs, or ERR / SKIP
IterPairs(c) ==
  CASE IsArr(c)  -> <<"OK", [k \in 1..Len(c[2]) |-> <<I(k - 1), c[2][k]>>]>>
    [] IsStr(c)  -> <<"OK", [k \in 1..Len(c[2]) |-> <<I(k - 1), S(<<c[2][k]>>)>>]>>
    [] IsHash(c) -> IF HashOrderDefined(c[2])
                    THEN LET ks == HashSorted(c[2]) IN <<"OK", [k \in 1..Len(ks) |-> <<ks[k], HashGet(c[2], ks[k])>>]>>
                    ELSE SKIP
    [] OTHER     -> ERR

\* does the switch value match one case expression value?
\* A regexp case tests a string.  For a value which is not a string the statement does not say: "print" tests
\* the printed form of the value, "none" lets no regexp case match it, "skip" leaves the run unconstrained.
CaseMatchM(v, cv, mode) ==
  IF IsRe(cv) THEN (IF IsStr(v) THEN Match(v[2], cv)
                    ELSE IF mode = "print" THEN (IF Inspect(v) = NoPrint THEN SKIP ELSE Match(Inspect(v), cv))
                    ELSE IF mode = "none" THEN B(FALSE)
                    ELSE SKIP)
  ELSE IF Tag(v) = Tag(cv) THEN
         (IF Scalar(v) THEN B(v = cv) ELSE SKIP)
  ELSE IF IsNum(v) /\ IsNum(cv) THEN (IF NumCmpOK(v, cv) /\ ~NumEq(v, cv) THEN B(FALSE) ELSE SKIP)
  ELSE B(FALSE)
CaseMatch(v, cv) == CaseMatchM(v, cv, "skip")

RECURSIVE BindAll(_, _, _)
BindAll(st, bound, i) == IF i > Len(bound) THEN st ELSE BindAll(Declare(st, bound[i][1], bound[i][2]), bound, i + 1)

RECURSIVE Eval(_, _, _), EvalList(_, _, _, _), EvalPairs(_, _, _, _), Exec(_, _, _), ExecBlock(_, _, _, _),
          Loop(_, _, _, _), Each(_, _, _, _, _, _, _), Cases(_, _, _, _, _, _), AnyMatch(_, _, _, _, _), CallFn(_, _, _, _)

\* evaluate a list of expressions left to right; result [vs, s]
EvalList(es, i, s, ctx) ==
  IF i > Len(es) \/ ~Live(s) THEN [vs |-> <<>>, s |-> s]
  ELSE LET h == NeedValue(Eval(es[i], s, ctx))
           t == EvalList(es, i + 1, h.s, ctx)
       IN [vs |-> <<h.v>> \o t.vs, s |-> t.s]

\* evaluate the key/value expressions of a hash literal; keys are sorted by the printed form
\* of the key expression in the implementation - evaluation order between pairs is only
\* observable through calls, which the corpora do not put there; later duplicates: unspecified
EvalPairs(ps, i, s, ctx) ==
  IF i > Len(ps) \/ ~Live(s) THEN [ps |-> <<>>, s |-> s]
  ELSE LET k == NeedValue(Eval(ps[i][1], s, ctx))
           w == NeedValue(Eval(ps[i][2], k.s, ctx))
           t == EvalPairs(ps, i + 1, w.s, ctx)
       IN [ps |-> <<<<k.v, w.v>>>> \o t.ps, s |-> t.s]

Eval(e, s, ctx) ==
  IF ~Live(s) THEN [v |-> N, s |-> s]
  ELSE
  CASE e[1] = "lit" -> [v |-> e[2], s |-> s]
    [] e[1] = "ref" -> [v |-> LookupVar(s, ctx, e[2]), s |-> s]
    [] e[1] = "un"  -> LET x == NeedValue(Eval(e[3], s, ctx)) IN
                       IF ~Live(x.s) THEN x ELSE Outcome(Un(e[2], x.v), x.s)
    [] e[1] = "bin" -> LET l == NeedValue(Eval(e[3], s, ctx))
                           r == NeedValue(Eval(e[4], l.s, ctx)) IN
                       IF ~Live(r.s) THEN r
                       ELSE Outcome(Bin(e[2], l.v, r.v), r.s)
    [] e[1] = "tern" -> LET c == NeedValue(Eval(e[2], s, ctx)) IN
                        IF ~Live(c.s) THEN c
                        ELSE IF Truthy(c.v) THEN Eval(e[3], c.s, ctx) ELSE Eval(e[4], c.s, ctx)
    [] e[1] = "arr" -> LET r == EvalList(e[2], 1, s, ctx) IN [v |-> A(r.vs), s |-> r.s]
    [] e[1] = "hash" ->
         LET r == EvalPairs(e[2], 1, s, ctx) IN
         IF ~Live(r.s) THEN [v |-> N, s |-> r.s]
         ELSE IF \E i \in 1..Len(r.ps) : ~Hashable(r.ps[i][1]) THEN [v |-> N, s |-> Fail(r.s)]
         ELSE IF \E i \in 1..Len(r.ps), j \in 1..Len(r.ps) : i # j /\ r.ps[i][1] = r.ps[j][1]
              THEN [v |-> N, s |-> Skip(r.s)]                   \* duplicate keys: which one survives is unspecified
         ELSE [v |-> H(r.ps), s |-> r.s]
    [] e[1] = "call" -> LET a == EvalList(e[3], 1, s, ctx) IN
                        IF ~Live(a.s) THEN [v |-> N, s |-> a.s] ELSE CallFn(e[2], a.vs, a.s, ctx)

CallFn(name, args, s, ctx) ==
  IF IsBuiltin(name) THEN          \* a built-in wins over a user-defined function of the same name
       (LET x == Builtin(name, args) IN
        IF x = PANIC THEN [v |-> N, s |-> Fail(s)] ELSE Outcome(x, s))
  ELSE IF Has(ctx.host, name) THEN
       (LET kind == Get(ctx.host, name)
            s1 == [s EXCEPT !.calls = Append(s.calls, <<name, args>>)] IN
        IF kind[1] = "log" THEN [v |-> V, s |-> s1]
        ELSE IF kind[1] = "same" THEN [v |-> IF Len(args) > 0 THEN args[1] ELSE N, s |-> s1]
        ELSE IF kind[1] = "pack" THEN [v |-> A(args), s |-> s1]
        \* "count": the number of calls of this function so far in the run, this one included
        ELSE IF kind[1] = "count" THEN [v |-> I(Cardinality({i \in 1..Len(s1.calls) : s1.calls[i][1] = name})), s |-> s1]
        ELSE [v |-> kind[2], s |-> s1])
  ELSE IF name \in DOMAIN ctx.funcs THEN
       (LET f == ctx.funcs[name] params == f[1] body == f[2] IN
        IF Len(params) # Len(args) THEN [v |-> N, s |-> Fail(s)]
        ELSE IF s.fuel = 0 THEN [v |-> N, s |-> [s EXCEPT !.st = "div"]]
        ELSE LET depth == Len(s.sc)
                 bound == [i \in 1..Len(params) |-> <<params[i], args[i]>>]
                 \* duplicate parameter names: the later binding wins
                 s1 == [s EXCEPT !.sc = Append(s.sc, <<>>), !.fuel = s.fuel - 1]
                 s2 == BindAll(s1, bound, 1)
                 s3 == ExecBlock(body, 1, s2, ctx)
                 \* the call closes everything it opened, however it ended
                 s4 == [s3 EXCEPT !.sc = SubSeq(s3.sc, 1, depth), !.ret = NONE]
             IN [v |-> IF s3.ret = NONE THEN V ELSE s3.ret, s |-> s4])
  ELSE [v |-> N, s |-> Fail(s)]     \* unknown function

ExecBlock(blk, i, s, ctx) ==
  IF i > Len(blk) \/ ~Live(s) THEN s ELSE ExecBlock(blk, i + 1, Exec(blk[i], s, ctx), ctx)

Loop(c, blk, s, ctx) ==
  IF ~Live(s) THEN s
  ELSE IF s.fuel = 0 THEN [s EXCEPT !.st = "div"]
  ELSE LET t == NeedValue(Eval(c, s, ctx)) IN
       IF ~Live(t.s) THEN t.s
       ELSE IF ~Truthy(t.v) THEN t.s
       ELSE Loop(c, blk, ExecBlock(blk, 1, [t.s EXCEPT !.fuel = t.s.fuel - 1], ctx), ctx)

\* one foreach loop over already computed pairs, in the scope at index `depth + 1`
Each(pairs, i, idx, var, blk, s, ctx) ==
  IF i > Len(pairs) \/ ~Live(s) THEN s
  ELSE LET s1 == Declare(s, var, pairs[i][2])
           s2 == IF idx = "" THEN s1 ELSE Declare(s1, idx, pairs[i][1])
       IN Each(pairs, i + 1, idx, var, blk, ExecBlock(blk, 1, s2, ctx), ctx)

\* does value v match any of the case expressions es (evaluated left to right)?  [m, s]
AnyMatch(es, i, v, s, ctx) ==
  IF i > Len(es) \/ ~Live(s) THEN [m |-> FALSE, s |-> s]
  ELSE LET c == NeedValue(Eval(es[i], s, ctx)) IN
       IF ~Live(c.s) THEN [m |-> FALSE, s |-> c.s]
       ELSE LET m == CaseMatchM(v, c.v, ctx.nsre) IN
            IF IsSkip(m) THEN [m |-> FALSE, s |-> Skip(c.s)]
            ELSE IF m[2] THEN [m |-> TRUE, s |-> c.s]
            ELSE AnyMatch(es, i + 1, v, c.s, ctx)

\* first matching case, else the default, else nothing; default blocks are skipped while searching
Cases(cs, i, v, s, ctx, dflt) ==
  IF ~Live(s) THEN s
  ELSE IF i > Len(cs) THEN (IF ~dflt[1] THEN s ELSE ExecBlock(dflt[2], 1, s, ctx))
  ELSE IF cs[i][1] THEN Cases(cs, i + 1, v, s, ctx, <<TRUE, cs[i][3]>>)
  ELSE LET r == AnyMatch(cs[i][2], 1, v, s, ctx) IN
       IF ~Live(r.s) THEN r.s
       ELSE IF r.m THEN ExecBlock(cs[i][3], 1, r.s, ctx)
       ELSE Cases(cs, i + 1, v, r.s, ctx, dflt)

Exec(st, s, ctx) ==
  IF ~Live(s) THEN s
  ELSE
  CASE st[1] = "expr" -> Eval(st[2], s, ctx).s
    [] st[1] = "ret"  -> LET r == NeedValue(Eval(st[2], s, ctx)) IN
                         IF ~Live(r.s) THEN r.s ELSE [r.s EXCEPT !.ret = r.v]
    [] st[1] = "asg"  -> LET r == NeedValue(Eval(st[3], s, ctx)) IN
                         IF ~Live(r.s) THEN r.s ELSE Assign(r.s, st[2], r.v)
    [] st[1] = "casg" -> LET cur == LookupVar(s, ctx, st[3])
                             r == NeedValue(Eval(st[4], s, ctx)) IN
                         IF ~Live(r.s) THEN r.s
                         ELSE LET x == Outcome(Bin(CompoundOp(st[2]), cur, r.v), r.s) IN
                              IF ~Live(x.s) THEN x.s ELSE Assign(x.s, st[3], x.v)
    [] st[1] = "post" -> LET cur == LookupVar(s, ctx, st[3]) IN
                         IF ~IsNum(cur) THEN Fail(s)
                         ELSE LET x == Outcome(Bin(IF st[2] = "++" THEN "+" ELSE "-", cur, I(1)), s) IN
                              IF ~Live(x.s) THEN x.s ELSE Assign(x.s, st[3], x.v)
    [] st[1] = "local" -> IF Len(s.sc) = 0 THEN Skip(s) ELSE Declare(s, st[2], N)
    [] st[1] = "if"   -> LET c == NeedValue(Eval(st[2], s, ctx)) IN
                         IF ~Live(c.s) THEN c.s
                         ELSE IF Truthy(c.v) THEN ExecBlock(st[3], 1, c.s, ctx)
                         ELSE IF ~st[5] THEN c.s
                         ELSE ExecBlock(st[4], 1, c.s, ctx)
    [] st[1] \in {"while", "for"} -> Loop(st[2], st[3], s, ctx)      \* "for" is another spelling of "while"
    [] st[1] = "foreach" ->
         LET c == NeedValue(Eval(st[4], s, ctx)) IN
         IF ~Live(c.s) THEN c.s
         ELSE LET pairs == IterPairs(c.v) IN
              IF IsErr(pairs) THEN Fail(c.s)
              ELSE IF IsSkip(pairs) THEN Skip(c.s)
              ELSE LET depth == Len(c.s.sc)
                       s1 == [c.s EXCEPT !.sc = Append(c.s.sc, <<>>)]
                       s2 == Each(pairs[2], 1, st[2], st[3], st[5], s1, ctx)
                   IN \* the loop's scope is closed however the loop ended (a `return` keeps its
                      \* value; the enclosing call or run closes the rest)
                      IF s2.ret = NONE /\ s2.st = "ok" THEN [s2 EXCEPT !.sc = SubSeq(s2.sc, 1, depth)] ELSE s2
    [] st[1] = "switch" ->
         LET v == NeedValue(Eval(st[2], s, ctx)) IN
         IF ~Live(v.s) THEN v.s ELSE Cases(st[3], 1, v.v, v.s, ctx, <<FALSE, <<>>>>)
    [] st[1] = "func" -> s

(***************************************************************************)
(* One run of a program: the observable record.                            *)
(*   out    the value returned (N when the script runs off its end),       *)
(*          ERR, SKIP or <<"DIVERGE">>                                     *)
(*   calls  the host-function calls made, in order (up to the failure)     *)
(*   g      the global variables left                                      *)
(***************************************************************************)
DIVERGE == <<"DIVERGE">>

\* mode: what a regexp case does with a value which is not a string (see CaseMatchM)
RunProgramM(prog, g, obj, host, fuel, mode) ==
  LET ctx == [funcs |-> FuncsOf(prog), obj |-> obj, host |-> host, nsre |-> mode]
      s == ExecBlock(prog, 1, InitState(g, fuel), ctx)
  IN [out |-> CASE s.st = "err" -> ERR
                [] s.st = "skip" -> SKIP
                [] s.st = "div" -> DIVERGE
                [] OTHER -> (IF s.ret = NONE THEN N ELSE s.ret),
      calls |-> s.calls,
      g |-> s.g,
      \* after a run that ended normally every scope must be closed; scopes left by a
      \* `return` inside loops/functions are closed by the run itself
      st |-> s.st]
RunProgram(prog, g, obj, host, fuel) == RunProgramM(prog, g, obj, host, fuel, "skip")
=============================================================================
