------------------------------- MODULE EFConc -------------------------------
(***************************************************************************)
(* Evaluators used from many goroutines: the synchronisation model.        *)
(*                                                                         *)
(* Events is a sequence of records [g, e, x, o, c]: the synchronisation-      *)
(* relevant steps of goroutines g in program order -                       *)
(*   e = "lock" / "unlock", x = evaluator     the evaluator's mutex        *)
(*   e = "rd" / "wr", x = location            an access to a location of   *)
(*        an evaluator: "<evaluator>.n" the persistent counter of the      *)
(*        script (c = TRUE: a counted read / write-back of value + 1),     *)
(*        "<evaluator>.vm" the machine's own state                         *)
(*   e = "clock" / "cunlock"                  the regexp-cache lock        *)
(*   e = "crd" / "cwr", x = "cache"           the shared regexp cache      *)
(* The module keeps each goroutine's program order and the lock semantics  *)
(* and lets TLC explore ALL interleavings consistent with them.  It is     *)
(* instantiated twice: by Trace_Conc with the events RECORDED from one     *)
(* real execution (code -> spec), and by MC_Conc with the events the       *)
(* DESIGN prescribes for G goroutines x R runs, with each lock switched    *)
(* on and off (the design, and the reason for each lock).                  *)
(***************************************************************************)
EXTENDS Integers, Sequences, FiniteSets

CONSTANT Events

Gs == {Events[i].g : i \in 1..Len(Events)}

\* the events of goroutine g, in order
RECURSIVE Pick(_, _)
Pick(g, i) == IF i > Len(Events) THEN <<>>
              ELSE IF Events[i].g = g THEN <<Events[i]>> \o Pick(g, i + 1) ELSE Pick(g, i + 1)
Prog == [g \in Gs |-> Pick(g, 1)]

Locs == {Events[i].x : i \in {j \in 1..Len(Events) : Events[j].e \in {"rd", "wr", "crd", "cwr"}}}
Counters == {l \in Locs : \E i \in 1..Len(Events) : Events[i].x = l /\ Events[i].e = "wr" /\ Events[i].c}

VARIABLES pc,      \* pc[g]: index of the next event of g
          held,    \* held[g]: set of locks g holds
          mem,     \* mem[l]: value of counter location l
          reg,     \* reg[g]: the value g last read from a counter
          writes   \* writes[l]: increments performed on l
vars == <<pc, held, mem, reg, writes>>

Init == /\ pc = [g \in Gs |-> 1]
        /\ held = [g \in Gs |-> {}]
        /\ mem = [l \in Counters |-> 0]
        /\ reg = [g \in Gs |-> 0]
        /\ writes = [l \in Counters |-> 0]

Done(g) == pc[g] > Len(Prog[g])
Nxt(g) == Prog[g][pc[g]]
LockName(ev) == IF ev.e \in {"lock", "unlock"} THEN ev.x ELSE "cache-lock"
IsAcquire(ev) == ev.e \in {"lock", "clock"}
IsRelease(ev) == ev.e \in {"unlock", "cunlock"}
IsAccess(ev) == ev.e \in {"rd", "wr", "crd", "cwr"}
IsWrite(ev) == ev.e \in {"wr", "cwr"}

Free(l) == \A h \in Gs : l \notin held[h]

\* one step of goroutine g: its next event
Step(g) ==
  /\ ~Done(g)
  /\ LET ev == Nxt(g) IN
     /\ (IsAcquire(ev) => Free(LockName(ev)))
     /\ pc' = [pc EXCEPT ![g] = @ + 1]
     /\ held' = [held EXCEPT ![g] = IF IsAcquire(ev) THEN @ \cup {LockName(ev)}
                                    ELSE IF IsRelease(ev) THEN @ \ {LockName(ev)} ELSE @]
     /\ IF ev.e = "rd" /\ ev.x \in Counters /\ ev.c
        THEN reg' = [reg EXCEPT ![g] = mem[ev.x]] /\ UNCHANGED <<mem, writes>>
        ELSE IF ev.e = "wr" /\ ev.x \in Counters /\ ev.c
        THEN /\ mem' = [mem EXCEPT ![ev.x] = reg[g] + 1]
             /\ writes' = [writes EXCEPT ![ev.x] = @ + 1]
             /\ UNCHANGED reg
        ELSE UNCHANGED <<mem, reg, writes>>

Next == \E g \in Gs : Step(g)

Spec == Init /\ [][Next]_vars

\* two goroutines both about to access one location, at least one writing, no lock in common
Race(g, h) ==
  /\ g # h /\ ~Done(g) /\ ~Done(h)
  /\ IsAccess(Nxt(g)) /\ IsAccess(Nxt(h))
  /\ Nxt(g).x = Nxt(h).x
  /\ (IsWrite(Nxt(g)) \/ IsWrite(Nxt(h)))
  /\ held[g] \cap held[h] = {}

NoDataRace == \A g \in Gs, h \in Gs : ~Race(g, h)

NoLostUpdate == (\A g \in Gs : Done(g)) => \A l \in Counters : mem[l] = writes[l]

MutualExclusion == \A g \in Gs, h \in Gs : g # h => held[g] \cap held[h] = {}

\* every lock taken is released by the end
Balanced == (\A g \in Gs : Done(g)) => \A g \in Gs : held[g] = {}

\* nobody waits for ever: while somebody still has events, somebody can move (no lock is taken and never
\* released, no two locks are taken in opposite orders)
NoDeadlock == (\E g \in Gs : ~Done(g)) => \E g \in Gs : ~Done(g) /\ (IsAcquire(Nxt(g)) => Free(LockName(Nxt(g))))

\* the discipline the design prescribes, as a property of each goroutine's own sequence: every access to a
\* location of an evaluator happens while that evaluator's lock is held, every access to the cache while the
\* cache lock is held, and locks are released in the reverse order of their acquisition
Guard(ev) == IF ev.e \in {"crd", "cwr"} THEN "cache-lock" ELSE ev.o       \* o: the evaluator owning the location
RECURSIVE Disciplined(_, _, _)
Disciplined(p, i, stack) ==
  IF i > Len(p) THEN stack = <<>>
  ELSE LET ev == p[i] IN
       IF IsAcquire(ev) THEN Disciplined(p, i + 1, Append(stack, LockName(ev)))
       ELSE IF IsRelease(ev) THEN Len(stack) > 0 /\ stack[Len(stack)] = LockName(ev)
                                  /\ Disciplined(p, i + 1, SubSeq(stack, 1, Len(stack) - 1))
       ELSE (\E k \in 1..Len(stack) : stack[k] = Guard(ev)) /\ Disciplined(p, i + 1, stack)
\* (a property of the event sequences themselves: evaluated in the initial state only)
LockDiscipline == (\A g \in Gs : pc[g] = 1) => \A g \in Gs : Disciplined(Prog[g], 1, <<>>)
=============================================================================
