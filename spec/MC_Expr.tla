------------------------------ MODULE MC_Expr ------------------------------
(***************************************************************************)
(* Enumerates the operator tables of EFValues - every binary operator on   *)
(* every ordered pair of a value set covering all types and boundaries,    *)
(* every unary operator, and all two-operator nestings over a reduced set  *)
(* - checks the algebraic laws on every cell, and exports each cell with   *)
(* the outcome the language defines as one ROW for replay into the real    *)
(* evaluator.  Properties C01 (values), C05 (truth), C16 (containers).     *)
(***************************************************************************)
EXTENDS EFCorpus, Json

CONSTANT Tier,         \* "quick" | "thorough"
         Seed          \* >= 1: shifts which part of a sampled family is taken (1 = the default sample)

\* constant integer arithmetic, three operators deep, in all five groupings
AOps  == IF Tier = "quick" THEN <<"+", "-", "*", "/">> ELSE <<"+", "-", "*", "/", "%">>
AVals == <<I(0), I(1), I(2), I(3), I(5), I(300)>>
NA    == Len(AVals)

\* constant folding at the edges of 64 bits: every arithmetic operator on two inline integer literals chosen so that
\* products and powers reach, cross and wrap around 2^63 / 2^64 (2 ** 64, 16 ** 16, 4096 * 4096 ...).  Where the
\* reference leaves the value open (SKIP) the optimised and the unoptimised evaluator must still agree (C03).
FOps  == <<"+", "-", "*", "/", "%", "**">>
FVals == <<I(0), I(1), I(2), I(3), I(4), I(8), I(10), I(15), I(16), I(31), I(32), I(33), I(62), I(63), I(64), I(65),
           I(100), I(128), I(255), I(256), I(4096), I(32767), I(65534)>>
NF    == Len(FVals)

NB == Len(BinOps)
NU == Len(UnOps)

Provs == IF Tier = "quick" THEN <<"ll", "vv", "ff">> ELSE <<"ll", "vv", "ff", "lv", "vl", "fv", "lf">>

VARIABLE row
vars == <<row>>

Lit(v) == <<"lit", v>>

RECURSIVE EvalE(_)
EvalE(e) ==
  CASE e[1] = "lit" -> e[2]
    [] e[1] = "un"  -> LET x == EvalE(e[3]) IN IF IsErr(x) \/ IsSkip(x) THEN x ELSE Un(e[2], x)
    [] e[1] = "bin" -> LET l == EvalE(e[3])  r == EvalE(e[4]) IN
                       IF IsErr(l) THEN ERR
                       ELSE IF IsSkip(l) THEN SKIP
                       ELSE IF IsErr(r) THEN (IF e[2] \in {"&&", "||"} THEN SKIP ELSE ERR)
                       ELSE IF IsSkip(r) THEN SKIP
                       ELSE Bin(e[2], l, r)

\* A pending row carries its family and the choices made so far; done = TRUE rows are exported.
Init ==
  \/ \E o \in 1..NB, i \in 1..NV :
       row = [k |-> "bin0", op |-> BinOps[o], l |-> Vals[i], done |-> FALSE]
  \/ \E o \in 1..NU :
       row = [k |-> "un0", op |-> UnOps[o], done |-> FALSE]
  \/ \E o1 \in 1..NB, o2 \in 1..NB :
       row = [k |-> "nest0", op1 |-> BinOps[o1], op2 |-> BinOps[o2], done |-> FALSE]
  \/ \E u \in 1..NU, o \in 1..NB :
       row = [k |-> "unbin0", op1 |-> UnOps[u], op2 |-> BinOps[o], done |-> FALSE]
  \/ \E o \in 1..Len(FOps) :
       row = [k |-> "fold0", op |-> FOps[o], done |-> FALSE]
  \/ \E sh \in 1..5, o1 \in 1..Len(AOps), o2 \in 1..Len(AOps) :
       row = [k |-> "arith0", sh |-> sh, op1 |-> AOps[o1], op2 |-> AOps[o2], done |-> FALSE]

Group3(sh, o1, o2, o3, a, b, c, d) ==
  CASE sh = 1 -> <<"bin", o1, a, <<"bin", o2, b, <<"bin", o3, c, d>>>>>>          \* a o1 (b o2 (c o3 d))
    [] sh = 2 -> <<"bin", o1, a, <<"bin", o3, <<"bin", o2, b, c>>, d>>>>          \* a o1 ((b o2 c) o3 d)
    [] sh = 3 -> <<"bin", o2, <<"bin", o1, a, b>>, <<"bin", o3, c, d>>>>          \* (a o1 b) o2 (c o3 d)
    [] sh = 4 -> <<"bin", o3, <<"bin", o1, a, <<"bin", o2, b, c>>>>, d>>          \* (a o1 (b o2 c)) o3 d
    [] sh = 5 -> <<"bin", o3, <<"bin", o2, <<"bin", o1, a, b>>, c>>, d>>          \* ((a o1 b) o2 c) o3 d

Next ==
  \/ /\ row.k = "arith0"
     /\ \E o3 \in 1..Len(AOps), a \in 1..NA, b \in 1..NA, c \in 1..NA, d \in 1..NA :
          /\ (Tier = "thorough" \/ (a + 2 * b + 3 * c + 5 * d + row.sh + o3 + Seed - 1) % 8 = 0)
          /\ LET e == Group3(row.sh, row.op1, row.op2, AOps[o3], Lit(AVals[a]), Lit(AVals[b]), Lit(AVals[c]), Lit(AVals[d]))
             IN row' = [k |-> "arith3", prov |-> "llll", e |-> e, exp |-> EvalE(e), done |-> TRUE]
  \/ /\ row.k = "fold0"
     /\ \E a \in 1..NF, b \in 1..NF :
          row' = [k |-> "fold2", prov |-> "ll",
                  e |-> <<"bin", row.op, Lit(FVals[a]), Lit(FVals[b])>>,
                  exp |-> Bin(row.op, FVals[a], FVals[b]), done |-> TRUE]
  \/ /\ row.k = "bin0"
     /\ \E j \in 1..NV, p \in 1..Len(Provs) :
          \* quick: literal operands for every cell, other provenances for a quarter of them
          /\ (Tier = "thorough" \/ p = 1 \/ (j + p + Seed - 1) % 4 = 0)
          /\ row' = [k |-> "bin", prov |-> Provs[p],
                  e |-> <<"bin", row.op, Lit(row.l), Lit(Vals[j])>>,
                  exp |-> Bin(row.op, row.l, Vals[j]), done |-> TRUE]
  \/ /\ row.k = "un0"
     /\ \E j \in 1..NV, p \in {"ll", "vv", "ff"} :
          row' = [k |-> "un", prov |-> p,
                  e |-> <<"un", row.op, Lit(Vals[j])>>,
                  exp |-> Un(row.op, Vals[j]), done |-> TRUE]
  \/ /\ row.k = "nest0"
     /\ \E a \in 1..NR, b \in 1..NR, c \in 1..NR, left \in BOOLEAN :
          \* thorough: every triple; quick: a fixed sixteenth of them chosen by the indices
          /\ (Tier = "thorough" \/ (a + 2 * b + 3 * c + (IF left THEN 1 ELSE 0) + Seed - 1) % 16 = 0)
          /\ LET e == IF left THEN <<"bin", row.op2, <<"bin", row.op1, Lit(Red[a]), Lit(Red[b])>>, Lit(Red[c])>>
                              ELSE <<"bin", row.op1, Lit(Red[a]), <<"bin", row.op2, Lit(Red[b]), Lit(Red[c])>>>>
             IN row' = [k |-> "nest", prov |-> "ll", e |-> e, exp |-> EvalE(e), done |-> TRUE]
  \/ /\ row.k = "unbin0"
     /\ \E a \in 1..NR, b \in 1..NR, outer \in BOOLEAN :
          LET e == IF outer THEN <<"un", row.op1, <<"bin", row.op2, Lit(Red[a]), Lit(Red[b])>>>>
                            ELSE <<"bin", row.op2, <<"un", row.op1, Lit(Red[a])>>, Lit(Red[b])>>
          IN row' = [k |-> "unbin", prov |-> "ll", e |-> e, exp |-> EvalE(e), done |-> TRUE]

Spec == Init /\ [][Next]_vars

\* ---- what TLC checks on the model itself --------------------------------
LawsHold ==
  (row.done /\ row.k = "bin") =>
     LET op == row.e[2]  l == row.e[3][2]  r == row.e[4][2] IN Laws(op, l, r)

TotalHold == row.done => (IsErr(row.exp) \/ IsSkip(row.exp) \/ IsValue(row.exp))

\* truthiness is a function of the value alone, and && / || follow it
TruthHold ==
  (row.done /\ row.k = "bin" /\ row.e[2] \in {"&&", "||"}) =>
     /\ Defined(row.exp)
     /\ row.exp = B(IF row.e[2] = "&&" THEN Truthy(row.e[3][2]) /\ Truthy(row.e[4][2])
                                       ELSE Truthy(row.e[3][2]) \/ Truthy(row.e[4][2]))

\* ---- export --------------------------------------------------------------
Export == row.done => PrintT(<<"ROW", ToJson(row)>>)
=============================================================================
