----------------------------- MODULE MC_Hostile -----------------------------
(***************************************************************************)
(* C08: bad scripts produce errors, never a crash of the host.             *)
(* The generator: script texts are sequences of lexemes - every kind of    *)
(* token of the language, brackets, quotes, a backslash, a NUL, multi-byte *)
(* characters, keywords, fragments of literals.  Next appends one lexeme;  *)
(* TLC enumerates every sequence up to a length bound exhaustively, and    *)
(* explores much longer ones in simulation mode.                           *)
(* The acceptor (what the harness demands of the real API on each text):   *)
(*   Prepare returns (an error or nil) - it never panics and never kills   *)
(*   the process; if it returned nil, Execute, Run and Dump return too,    *)
(*   and a second Execute gives the same class of outcome as the first     *)
(*   (the evaluator remains usable).                                       *)
(* API outcomes are modelled as the variable `api`; the states "panicked"  *)
(* and "died" exist in its type but no action leads to them.               *)
(***************************************************************************)
EXTENDS Integers, Sequences, Json, TLC

CONSTANT MaxLen

Lexemes == <<
  "x", "y", "1", "0", "2.5", "65535", "70000", "\"s\"", "'q'", "\"", "'", "/a/", "/a/i", "/(?i/", "/(?:a|b/", "/(?i:a)b/", "/(?/", "/)(/", "/", "\\", "//", "\n",
  "(", ")", "[", "]", "{", "}", ",", ";", ":", "?", ".", "..",
  "=", "==", "!=", "<", "<=", ">", ">=", "~=", "!~", "&&", "||", "&", "|", "~",
  "+", "-", "*", "**", "%", "++", "--", "+=", "-=", "*=", "/=", "!", "sqrt",
  "if", "else", "while", "for", "foreach", "in", "function", "return", "local", "switch", "case", "default", "true", "false",
  "len", "print", "panic", "f", "NUL", "#", "@", "e-acute", "emoji"
>>
NL == Len(Lexemes)

VARIABLES toks, api
vars == <<toks, api>>

ApiStates == {"fresh", "rejected", "prepared", "ran", "panicked", "died"}

Init == /\ \E i \in 1..NL : toks = <<Lexemes[i]>>
        /\ api = "fresh"

Next == /\ Len(toks) < MaxLen
        /\ \E i \in 1..NL : toks' = Append(toks, Lexemes[i])
        /\ api' = "fresh"

Spec == Init /\ [][Next]_vars

\* the acceptor's safety property: the bad states are never entered
NeverCrashes == api \notin {"panicked", "died"}
TypeOK == api \in ApiStates /\ Len(toks) >= 1 /\ Len(toks) <= MaxLen

Export == PrintT(<<"ROW", ToJson([k |-> "soup", toks |-> toks])>>)
=============================================================================
