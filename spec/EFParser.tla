------------------------------ MODULE EFParser ------------------------------
(***************************************************************************)
(* The expression grammar of evalfilter as the property C12 states it:     *)
(* operators bind in the fixed order                                       *)
(*    index / call  >  prefix  >  %  >  **  >  * /  >  + -  >              *)
(*    < <= > >= ~= !~ in  >  == !=  >  && ||  >  range  >  ternary         *)
(* equal levels group left to right, parentheses override, a ternary       *)
(* inside a ternary is rejected; the right-hand side of an assignment      *)
(* (plain or compound) is a whole expression.                              *)
(*                                                                         *)
(* Trees:  <<"id", name>>  <<"bin", op, l, r>>  <<"un", op, e>>            *)
(*         <<"idx", e, i>>  <<"call", name, args>>  <<"tern", c, a, b>>    *)
(* The printer produces token sequences with minimal, or with full,        *)
(* parenthesisation; the model parser (a Pratt loop over the table) reads  *)
(* them back.  TLC checks Parse(Print(t)) = t for every enumerated tree:   *)
(* the printer is the inverse of the grammar, so the minimal text is THE   *)
(* text which the rules say means t.                                       *)
(***************************************************************************)
EXTENDS Integers, Sequences, TLC

\* binding levels, higher binds tighter
Level(op) ==
  CASE op = "%" -> 7
    [] op = "**" -> 6
    [] op \in {"*", "/"} -> 5
    [] op \in {"+", "-"} -> 4
    [] op \in {"<", "<=", ">", ">=", "~=", "!~", "in"} -> 3
    [] op \in {"==", "!="} -> 2
    [] op \in {"&&", "||"} -> 1
    [] op = ".." -> 0
TernLevel   == -1
PrefixLevel == 8
PostfixLevel == 9

BinOpList == <<"%", "**", "*", "/", "+", "-", "<", "<=", ">", ">=", "~=", "!~", "in", "==", "!=", "&&", "||", "..">>
PrefixOps == <<"-", "!", "sqrt">>          \* "sqrt" stands for the root sign (strings stay ASCII)

\* the level at which a tree's outermost construct binds
TopLevel(t) ==
  CASE t[1] = "bin" -> Level(t[2])
    [] t[1] = "un" -> PrefixLevel
    [] t[1] = "tern" -> TernLevel
    [] OTHER -> 10          \* identifiers, index and call expressions are atoms

Paren(ts) == <<"(">> \o ts \o <<")">>

RECURSIVE MinP(_, _), Full(_), MinArgsP(_, _, _), FullArgs(_, _)
\* child printed so that it can stand where a construct of level lv needs (at least / more than) lv
\* (lp: every identifier leaf is written in parentheses of its own - redundant ones)
Wrap(t, lv, strict, lp) == IF TopLevel(t) < lv \/ (strict /\ TopLevel(t) = lv) THEN Paren(MinP(t, lp)) ELSE MinP(t, lp)

MinP(t, lp) ==
  CASE t[1] = "id" -> IF lp THEN Paren(<<t[2]>>) ELSE <<t[2]>>
    [] t[1] = "bin" -> Wrap(t[3], Level(t[2]), FALSE, lp) \o <<t[2]>> \o Wrap(t[4], Level(t[2]), TRUE, lp)    \* left to right
    [] t[1] = "un" -> <<t[2]>> \o Wrap(t[3], PrefixLevel, FALSE, lp)
    [] t[1] = "idx" -> Wrap(t[2], PostfixLevel, FALSE, lp) \o <<"[">> \o MinP(t[3], lp) \o <<"]">>
    [] t[1] = "call" -> <<t[2], "(">> \o MinArgsP(t[3], 1, lp) \o <<")">>
    \* the arms of a ternary take anything but another ternary; its condition anything above it
    [] t[1] = "tern" -> Wrap(t[2], TernLevel, TRUE, lp) \o <<"?">> \o Wrap(t[3], TernLevel, TRUE, lp) \o <<":">> \o Wrap(t[4], TernLevel, TRUE, lp)
MinArgsP(as, i, lp) == IF i > Len(as) THEN <<>> ELSE MinP(as[i], lp) \o (IF i < Len(as) THEN <<",">> ELSE <<>>) \o MinArgsP(as, i + 1, lp)
Min(t) == MinP(t, FALSE)
\* minimal grouping, but every identifier in redundant parentheses: "( a ) + ( b ) * ( c )"
Leafy(t) == MinP(t, TRUE)

Full(t) ==
  CASE t[1] = "id" -> <<t[2]>>
    [] t[1] = "bin" -> Paren(Paren(Full(t[3])) \o <<t[2]>> \o Paren(Full(t[4])))
    [] t[1] = "un" -> Paren(<<t[2]>> \o Paren(Full(t[3])))
    [] t[1] = "idx" -> Paren(Paren(Full(t[2])) \o <<"[">> \o Full(t[3]) \o <<"]">>)
    [] t[1] = "call" -> Paren(<<t[2], "(">> \o FullArgs(t[3], 1) \o <<")">>)
    [] t[1] = "tern" -> Paren(Paren(Full(t[2])) \o <<"?">> \o Paren(Full(t[3])) \o <<":">> \o Paren(Full(t[4])))
FullArgs(as, i) == IF i > Len(as) THEN <<>> ELSE Paren(Full(as[i])) \o (IF i < Len(as) THEN <<",">> ELSE <<>>) \o FullArgs(as, i + 1)

(***************************************************************************)
(* The model parser: a Pratt loop over the table above.                    *)
(* ParseE(ts, i, lv) parses from token i an expression whose operators     *)
(* bind tighter than lv; it returns <<tree, next index>>, or <<"ERR">>.    *)
(***************************************************************************)
IsBinTok(x) == \E k \in 1..Len(BinOpList) : BinOpList[k] = x
IsPrefixTok(x) == x \in {"-", "!", "sqrt"}
IsIdTok(x) == x \in {"a", "b", "c", "d", "e", "f", "g", "x", "y"}
PERR == <<"ERR">>
Failed(r) == r[1] = "ERR"

RECURSIVE ParseE(_, _, _, _), ParsePrefix(_, _, _), ParseLoop(_, _, _, _, _), ParseArgs(_, _, _, _)

\* results are <<"OK", tree (or argument list), next index>> or <<"ERR">>
Ok(t, i) == <<"OK", t, i>>

ParsePrefix(ts, i, intern) ==
  IF i > Len(ts) THEN PERR
  ELSE IF ts[i] = "(" THEN
       \* (inside the arms of a ternary no other ternary may be written - not in parentheses, argument lists or
       \* index brackets either: "intern" is handed down)
       (LET r == ParseE(ts, i + 1, -2, intern) IN
        IF Failed(r) THEN PERR
        ELSE IF r[3] > Len(ts) \/ ts[r[3]] # ")" THEN PERR ELSE Ok(r[2], r[3] + 1))
  ELSE IF IsPrefixTok(ts[i]) THEN
       (LET r == ParseE(ts, i + 1, PrefixLevel - 1, intern) IN
        IF Failed(r) THEN PERR ELSE Ok(<<"un", ts[i], r[2]>>, r[3]))
  ELSE IF IsIdTok(ts[i]) THEN
       (IF i < Len(ts) /\ ts[i + 1] = "(" /\ ts[i] \in {"f", "g"} THEN
            (LET a == ParseArgs(ts, i + 2, <<>>, intern) IN
             IF Failed(a) THEN PERR ELSE Ok(<<"call", ts[i], a[2]>>, a[3]))
        ELSE Ok(<<"id", ts[i]>>, i + 1))
  ELSE PERR

ParseArgs(ts, i, acc, intern) ==
  IF i > Len(ts) THEN PERR
  ELSE IF ts[i] = ")" /\ Len(acc) = 0 THEN Ok(acc, i + 1)
  ELSE LET r == ParseE(ts, i, -2, intern) IN
       IF Failed(r) THEN PERR
       ELSE IF r[3] > Len(ts) THEN PERR
       ELSE IF ts[r[3]] = ")" THEN Ok(Append(acc, r[2]), r[3] + 1)
       ELSE IF ts[r[3]] = "," THEN ParseArgs(ts, r[3] + 1, Append(acc, r[2]), intern)
       ELSE PERR

\* left holds the expression parsed so far
ParseLoop(ts, i, lv, left, intern) ==
  IF i > Len(ts) THEN Ok(left, i)
  ELSE IF ts[i] = "[" /\ PostfixLevel > lv THEN
       (LET r == ParseE(ts, i + 1, -2, intern) IN
        IF Failed(r) THEN PERR
        ELSE IF r[3] > Len(ts) \/ ts[r[3]] # "]" THEN PERR
        ELSE ParseLoop(ts, r[3] + 1, lv, <<"idx", left, r[2]>>, intern))
  ELSE IF IsBinTok(ts[i]) /\ Level(ts[i]) > lv THEN
       (LET r == ParseE(ts, i + 1, Level(ts[i]), intern) IN
        IF Failed(r) THEN PERR ELSE ParseLoop(ts, r[3], lv, <<"bin", ts[i], left, r[2]>>, intern))
  ELSE IF ts[i] = "?" /\ TernLevel > lv THEN
       (IF intern THEN PERR                                     \* a ternary inside a ternary
        \* (the arms are whole expressions: a "?" met while reading one belongs to it - and is refused there)
        ELSE LET a == ParseE(ts, i + 1, -2, TRUE) IN
             IF Failed(a) THEN PERR
             ELSE IF a[3] > Len(ts) \/ ts[a[3]] # ":" THEN PERR
             ELSE LET b == ParseE(ts, a[3] + 1, -2, TRUE) IN
                  IF Failed(b) THEN PERR ELSE ParseLoop(ts, b[3], lv, <<"tern", left, a[2], b[2]>>, intern))
  ELSE Ok(left, i)

ParseE(ts, i, lv, intern) ==
  LET p == ParsePrefix(ts, i, intern) IN
  IF Failed(p) THEN PERR ELSE ParseLoop(ts, p[3], lv, p[2], intern)

\* a whole token sequence: the tree, or <<"ERR">>
Parse(ts) == LET r == ParseE(ts, 1, -2, FALSE) IN
             IF Failed(r) THEN PERR ELSE IF r[3] # Len(ts) + 1 THEN PERR ELSE r[2]
=============================================================================
