------------------------------ MODULE MC_Refine ------------------------------
(***************************************************************************)
(* Refinement inside the specification.  For every enumerated program and  *)
(* every input TLC checks                                                  *)
(*   CompilerRefines      running the model compiler's code on the model   *)
(*                        machine (EFVM) gives the result, host calls and  *)
(*                        variables the reference semantics (EFSemantics)  *)
(*                        gives for the syntax tree;                       *)
(*   OptimizerPreserves   running the model optimizer's output gives what  *)
(*                        the unoptimised code gives.                      *)
(* EFCompiler and EFOptimizer are bound to the real compiler and optimizer *)
(* byte for byte (C18); each row also carries the <<offset, opcode>> of    *)
(* every instruction the model machine executed, which the harness         *)
(* compares with what the real machine executes on the same program and    *)
(* input (the step hook) - that binds EFVM.                                *)
(***************************************************************************)
EXTENDS EFVM, Json

CONSTANT Tier,
         Seed      \* >= 1: shifts which part of a sampled family is taken (1 = the default sample)
VARIABLE row
vars == <<row>>

Flow  == INSTANCE MC_Flow
Opt   == INSTANCE MC_Opt
Scope == INSTANCE MC_Scope
Alias == INSTANCE MC_Alias
Hist  == INSTANCE MC_History
Det   == INSTANCE MC_Det

Host == <<<<"t", <<"log">>>>>>
SemFuel == 80
VMFuel == 3000

\* the runs of one program on one evaluator: reference semantics, unoptimised and optimised code side by
\* side, each threading its own variables
RECURSIVE Runs(_, _, _, _, _, _, _, _)
Runs(prog, cc, oc, objs, i, g1, g2, g3) ==
  IF i > Len(objs) THEN <<>>
  ELSE LET r1 == RunProgram(prog, g1, objs[i], Host, SemFuel)
           r2 == RunCompiled(cc, g2, objs[i], Host, VMFuel)
           r3 == RunCompiled(oc, g3, objs[i], Host, VMFuel)
           same12 == Agree(r1, r2)
           same23 == Agree(r2, r3)
           \* once one side is unconstrained the variables may differ: the later runs are not compared
           \* (a run that fails leaves the variables it had assigned so far - those are compared, and the next run starts from them)
           go == r1.st \in {"ok", "err"} /\ r2.st \in {"ok", "err"} /\ r3.st \in {"ok", "err"} /\ same12 /\ same23
       IN <<[obj |-> objs[i], g |-> g2, sem |-> r1.out, vm |-> r2.out, opt |-> r3.out, st |-> r2.st,
             refines |-> same12, preserved |-> same23, ips |-> r2.ips, oips |-> r3.ips]>>
          \o (IF go THEN Runs(prog, cc, oc, objs, i + 1, r1.g, r2.g, r3.g) ELSE <<>>)

\* g0: the variables the evaluator holds before the first run
MkRowG(fam, prog, objs, g0) ==
  LET cc == Compile(prog) IN
  IF ~cc.ok THEN [k |-> "refine", fam |-> fam, prog |-> prog, ok |-> FALSE, vars |-> g0, runs |-> <<>>, done |-> TRUE]
  ELSE LET oc == Optimize(cc) IN
       [k |-> "refine", fam |-> fam, prog |-> prog, ok |-> TRUE, vars |-> g0,
        runs |-> Runs(prog, cc, oc, objs, 1, g0, g0, g0), done |-> TRUE]
MkRow(fam, prog, objs) == MkRowG(fam, prog, objs, <<>>)

NK == Flow!NKinds
Twice == <<<<>>, <<>>>>

Init ==
  \/ \E k1 \in 1..NK, sh \in {"nest2", "seq2"} : row = [k |-> "f0", k1 |-> k1, sh |-> sh, done |-> FALSE]
  \/ \E t \in 1..Scope!NTemplates : row = [k |-> "s0", t |-> t, done |-> FALSE]
  \/ \E sh \in 1..Alias!NShapes : row = [k |-> "a0", sh |-> sh, done |-> FALSE]
  \/ \E k1 \in 1..NK : row = [k |-> "o0", k1 |-> k1, done |-> FALSE]
  \/ \E sc \in 1..2, m1 \in 0..9 : row = [k |-> "h0", sc |-> sc, m1 |-> m1, done |-> FALSE]
  \/ \E a \in 1..Det!NK : row = [k |-> "d0", a |-> a, done |-> FALSE]
  \/ \E a \in 1..Opt!NJ : row = [k |-> "j0", a |-> a, done |-> FALSE]
  \/ \E o1 \in 1..Flow!NTail : row = [k |-> "t0", o1 |-> o1, done |-> FALSE]

Next ==
  /\ ~row.done
  /\ \/ /\ row.k = "f0"
        /\ \E k2 \in 1..NK :
             /\ (Tier = "thorough" \/ (row.k1 + 3 * k2 + Seed - 1) % 3 = 0)
             /\ row' = MkRow("flow", Flow!Prog(row.sh, row.k1, k2, 1), Flow!Objs(Flow!Fields(<<row.k1, k2>>)))
     \/ /\ row.k = "f0" /\ row.sh = "nest2"
        /\ \E k2 \in 1..NK, k3 \in 1..NK :
             /\ (row.k1 + 3 * k2 + 5 * k3 + Seed - 1) % (IF Tier = "thorough" THEN 7 ELSE 101) = 0
             /\ row' = MkRow("flow3", Flow!Prog("nest3", row.k1, k2, k3), Flow!Objs(Flow!Fields(<<row.k1, k2, k3>>)))
     \/ /\ row.k = "s0"
        /\ \E a \in 1..3, b \in 1..3, place \in 1..6, place2 \in 0..6, before \in BOOLEAN :
             /\ a # b
             /\ ~(place = 6 /\ place2 = 6)
             /\ (IF Tier = "thorough" THEN (place2 = 0 \/ (row.t + a + b + place + place2 + Seed - 1) % 4 = 0)
                                      ELSE (place2 = 0 /\ (row.t + a + 2 * b + place + Seed - 1) % 3 = 0))
             /\ row' = MkRow("scope", Scope!ProgAt(row.t, Scope!Names[a], Scope!Names[b], place, place2, before), Twice)
     \/ /\ row.k = "a0"
        /\ \E s \in 1..Len(Alias!Sources), m \in 1..Len(Alias!Muts) :
             /\ (Tier = "thorough" \/ (row.sh + s + m + Seed - 1) % 3 = 0)
             /\ row' = MkRow("alias", Alias!Shape(row.sh, Alias!Sources[s], Alias!Muts[m]),
                             IF row.sh \in {7, 15, 16} THEN <<<<<<"F1", Alias!Sources[s]>>>>, <<<<"F1", Alias!Sources[s]>>>>>> ELSE Twice)
     \/ \* the fault scripts of MC_History: run-time errors inside functions and loops, early returns (the
        \* mode "a run that never ends" is left out: both sides only run out of fuel)
        /\ row.k = "h0"
        /\ \E m2 \in 0..9, m3 \in 0..9 :
             /\ (Tier = "thorough" \/ (row.m1 + 3 * m2 + 5 * m3 + Seed - 1) % 7 = 0)
             /\ row' = MkRowG("history", IF row.sc = 1 THEN Hist!Script1 ELSE Hist!Script2,
                              <<<<<<"M", I(row.m1)>>>>, <<<<"M", I(m2)>>>>, <<<<"M", I(m3)>>>>>>, Hist!G0)
     \/ \* hash literals over keys which print alike (MC_Det): built, printed, listed, iterated and indexed
        /\ row.k = "d0"
        /\ \/ \E b \in 1..Det!NK : row' = MkRow("det", Det!Observe(Det!HashLit(<<row.a, b>>)), Twice)
           \/ \E b \in 1..Det!NK, c \in 1..Det!NK :
                /\ (Tier = "thorough" \/ (row.a + 2 * b + 3 * c + Seed - 1) % 5 = 0)
                /\ row' = MkRow("det", Det!Observe(Det!HashLit(<<row.a, b, c>>)), Twice)
     \/ /\ row.k = "j0"
        /\ \E b \in 1..Opt!NJ :
             /\ (Tier = "thorough" \/ (row.a + b + Seed - 1) % 5 = 0)
             /\ row' = MkRow("join", Opt!JoinProg(Opt!JoinLits[row.a], Opt!JoinLits[b]), <<<<<<"C1", B(TRUE)>>>>, <<<<"C1", B(FALSE)>>>>>>)
     \/ /\ row.k = "t0"
        /\ \E o2 \in 1..Flow!NTail, leaf \in BOOLEAN :
             row' = MkRow("tail", Flow!TailProg(row.o1, o2, leaf), Flow!Objs(Flow!TailFields(row.o1, 1) \o Flow!TailFields(o2, 2)))
     \/ /\ row.k = "o0"
        /\ \E m1 \in 0..Opt!NC, k2 \in 1..NK, m2 \in 0..Opt!NC, sh \in {"nest2", "seq2", "first"} :
             /\ (m1 > 0 => Opt!UsesC(row.k1)) /\ (m2 > 0 => Opt!UsesC(k2)) /\ (m1 > 0 \/ m2 > 0)
             /\ (row.k1 + 3 * m1 + 5 * k2 + 7 * m2 + Seed - 1) % (IF Tier = "thorough" THEN 5 ELSE 47) = 0
             /\ row' = MkRow("opt", Opt!Prog(sh, row.k1, m1, k2, m2), Opt!Objs(Opt!FieldsOf(row.k1, m1, k2, m2)))

Spec == Init /\ [][Next]_vars

CompilerRefines == row.done => \A i \in 1..Len(row.runs) : row.runs[i].refines
OptimizerPreserves == row.done => \A i \in 1..Len(row.runs) : row.runs[i].preserved

Export == row.done => PrintT(<<"ROW", ToJson(row)>>)
=============================================================================
