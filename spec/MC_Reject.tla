------------------------------ MODULE MC_Reject -----------------------------
(***************************************************************************)
(* C13: a script that cannot be fully translated is rejected by Prepare.   *)
(* Invalid fragments - each with the reason it is invalid - are placed in  *)
(* every enclosing context (bodies of if / else / else-if / while /        *)
(* foreach / function / switch case / switch default; as a ternary arm, a  *)
(* call argument, an array element, a hash value, an index, a return       *)
(* value, a bracketed operand), nested to a depth bound.  Every row also   *)
(* has its valid sibling - the same context with the fragment repaired -   *)
(* which must be ACCEPTED, so that "rejects everything" does not pass and  *)
(* silently dropping the fragment is told apart from rejecting it.         *)
(* A second family truncates valid programs at every token boundary at     *)
(* which a bracket is still open.                                          *)
(* Programs are token sequences; the harness joins them with spaces.       *)
(***************************************************************************)
EXTENDS Integers, Sequences, FiniteSets, Json, TLC

CONSTANT Tier,
         Seed      \* (not used by this corpus: nothing in it is sampled)

VARIABLE row
vars == <<row>>

\* ---- bracket structure ------------------------------------------------------------------
Opener(t) == t \in {"(", "[", "{"}
Closer(t) == t \in {")", "]", "}"}
Match(o, c) == (o = "(" /\ c = ")") \/ (o = "[" /\ c = "]") \/ (o = "{" /\ c = "}")

\* the stack of open brackets after the tokens ts, or <<"X">> when a closer does not match
RECURSIVE OpenAfter(_, _, _)
OpenAfter(ts, i, st) ==
  IF i > Len(ts) THEN st
  ELSE IF Opener(ts[i]) THEN OpenAfter(ts, i + 1, Append(st, ts[i]))
  ELSE IF Closer(ts[i]) THEN
       (IF Len(st) > 0 /\ Match(st[Len(st)], ts[i]) THEN OpenAfter(ts, i + 1, SubSeq(st, 1, Len(st) - 1)) ELSE <<"X">>)
  ELSE OpenAfter(ts, i + 1, st)
Balanced(ts) == OpenAfter(ts, 1, <<>>) = <<>>

\* ---- fragments: [pos, bad, good, why] ---------------------------------------------------
\* pos "S": a statement; pos "E": an expression (placed in an expression context)
Frag(pos, bad, good, why) == [pos |-> pos, bad |-> bad, good |-> good, why |-> why]
Frags == <<
  Frag("S", <<"x", "=", "\"abc", ";">>, <<"x", "=", "\"abc\"", ";">>, "unterminated string"),
  Frag("S", <<"x", "=", "'abc", ";">>, <<"x", "=", "'abc'", ";">>, "unterminated string"),
  Frag("S", <<"x", "=", "y", "~=", "/abc", ";">>, <<"x", "=", "y", "~=", "/abc/", ";">>, "unterminated regexp"),
  Frag("S", <<"x", "=", "y", "~=", "/abc/z", ";">>, <<"x", "=", "y", "~=", "/abc/i", ";">>, "illegal regexp flag"),
  Frag("S", <<"x", "=", "y", "~=", "/abc/I", ";">>, <<"x", "=", "y", "~=", "/abc/i", ";">>, "illegal regexp flag"),
  Frag("S", <<"x", "=", "y", "~=", "/abc/iM", ";">>, <<"x", "=", "y", "~=", "/abc/im", ";">>, "illegal regexp flag"),
  Frag("S", <<"if", "(", "true", ")", "{", "x", "=", "1", ";">>, <<"if", "(", "true", ")", "{", "x", "=", "1", ";", "}">>, "unbalanced"),
  Frag("S", <<"while", "(", "false", ")", "{">>, <<"while", "(", "false", ")", "{", "}">>, "unbalanced"),
  Frag("S", <<"function", "g", "(", "a", ",", "b", "{", "return", "a", ";", "}">>, <<"function", "g", "(", "a", ",", "b", ")", "{", "return", "a", ";", "}">>, "unbalanced"),
  Frag("S", <<"switch", "(", "x", ")", "{", "case", "1", "{", "y", "=", "1", ";", "}">>, <<"switch", "(", "x", ")", "{", "case", "1", "{", "y", "=", "1", ";", "}", "}">>, "unbalanced"),
  Frag("E", <<"1", "+">>, <<"1", "+", "2">>, "missing operand"),
  Frag("E", <<"*", "2">>, <<"3", "*", "2">>, "missing operand"),
  Frag("E", <<"1", "+", "*", "2">>, <<"1", "+", "3", "*", "2">>, "missing operand"),
  Frag("E", <<"!">>, <<"!", "true">>, "missing operand"),
  Frag("S", <<"1", "=", "2", ";">>, <<"x", "=", "2", ";">>, "assignment to a non-variable"),
  Frag("S", <<"\"s\"", "=", "1", ";">>, <<"s", "=", "1", ";">>, "assignment to a non-variable"),
  Frag("S", <<"t", "(", "1", ")", "=", "2", ";">>, <<"y", "=", "2", ";">>, "assignment to a non-variable"),
  Frag("S", <<"1", "+=", "2", ";">>, <<"x", "+=", "2", ";">>, "compound assignment to a non-variable"),
  Frag("S", <<"a", "[", "0", "]", "-=", "1", ";">>, <<"a", "-=", "1", ";">>, "compound assignment to a non-variable"),
  \* (a compound assignment is an expression of the grammar: the same fault wherever an expression may stand)
  Frag("E", <<"a", "[", "0", "]", "+=", "1">>, <<"a", "+=", "1">>, "compound assignment to a non-variable"),
  Frag("E", <<"1", "-=", "2">>, <<"x", "-=", "2">>, "compound assignment to a non-variable"),
  Frag("S", <<"t", "(", "1", ")", "*=", "2", ";">>, <<"x", "*=", "2", ";">>, "compound assignment to a non-variable"),
  Frag("S", <<"local", "q", ";">>, <<"q", "=", "0", ";">>, "local outside a function"),
  Frag("E", <<"a", "?", "b", "?", "c", ":", "d", ":", "e">>, <<"a", "?", "b", ":", "e">>, "nested ternary"),
  Frag("E", <<"a", "?", "b", ":", "c", "?", "d", ":", "e">>, <<"a", "?", "b", ":", "c">>, "nested ternary"),
  Frag("E", <<"a", "?", "(", "b", ")", ":", "c", "?", "d", ":", "e">>, <<"a", "?", "(", "b", ")", ":", "c">>, "nested ternary"),
  Frag("E", <<"a", "?", "-", "b", ":", "c", "?", "d", ":", "e">>, <<"a", "?", "-", "b", ":", "c">>, "nested ternary"),
  Frag("E", <<"a", "?", "[", "b", "]", ":", "c", "?", "d", ":", "e">>, <<"a", "?", "[", "b", "]", ":", "c">>, "nested ternary"),
  \* the inner ternary behind another construct of the arm: an argument, a bracketed operand, an index, an element
  Frag("E", <<"a", "?", "t", "(", "b", "?", "c", ":", "d", ",", "e", ")", ":", "c">>, <<"a", "?", "t", "(", "b", ",", "e", ")", ":", "c">>, "nested ternary"),
  Frag("E", <<"a", "?", "(", "b", "?", "c", ":", "d", ")", "+", "1", ":", "e">>, <<"a", "?", "(", "b", ")", "+", "1", ":", "e">>, "nested ternary"),
  Frag("E", <<"a", "?", "x", "[", "b", "?", "0", ":", "1", "]", ":", "e">>, <<"a", "?", "x", "[", "b", "]", ":", "e">>, "nested ternary"),
  Frag("E", <<"a", "?", "[", "b", "?", "c", ":", "d", "]", ":", "e">>, <<"a", "?", "[", "b", "]", ":", "e">>, "nested ternary"),
  Frag("E", <<"a", "?", "b", ":", "t", "(", "c", "?", "d", ":", "e", ")">>, <<"a", "?", "b", ":", "t", "(", "c", ")">>, "nested ternary"),
  Frag("S", <<"x", "=", "1", "#", "2", ";">>, <<"x", "=", "1", "+", "2", ";">>, "illegal character"),
  Frag("S", <<"x", "=", "1", "@", ";">>, <<"x", "=", "1", ";">>, "illegal character"),
  Frag("S", <<"x", "=", "1", ";", "^">>, <<"x", "=", "1", ";">>, "illegal character"),
  Frag("S", <<"x", "=", "&", "1", ";">>, <<"x", "=", "1", ";">>, "illegal character"),
  Frag("S", <<"x", "=", "1", "|", "2", ";">>, <<"x", "=", "1", "||", "2", ";">>, "illegal character"),
  Frag("E", <<"(", "1", "+", "2">>, <<"(", "1", "+", "2", ")">>, "unbalanced"),
  Frag("E", <<"[", "1", ",", "2">>, <<"[", "1", ",", "2", "]">>, "unbalanced"),
  Frag("E", <<"{", "\"a\"", ":", "1">>, <<"{", "\"a\"", ":", "1", "}">>, "unbalanced"),
  Frag("E", <<"{", "\"a\"", "1", "}">>, <<"{", "\"a\"", ":", "1", "}">>, "missing colon"),
  Frag("E", <<"a", "[", "1">>, <<"a", "[", "1", "]">>, "unbalanced"),
  Frag("E", <<"t", "(", "1", ",", "2">>, <<"t", "(", "1", ",", "2", ")">>, "unbalanced"),
  Frag("S", <<"if", "(", "x", "{", "y", "=", "1", ";", "}">>, <<"if", "(", "x", ")", "{", "y", "=", "1", ";", "}">>, "unbalanced"),
  Frag("S", <<"foreach", "in", "a", "{", "}">>, <<"foreach", "v", "in", "a", "{", "}">>, "missing loop variable"),
  Frag("S", <<"foreach", "v", "a", "{", "}">>, <<"foreach", "v", "in", "a", "{", "}">>, "missing in"),
  Frag("S", <<"x", "=", "1", ";", "}">>, <<"x", "=", "1", ";">>, "unbalanced"),
  Frag("S", <<"return", "1", "+", ";">>, <<"return", "1", "+", "2", ";">>, "missing operand"),
  Frag("S", <<"x", "=", ";">>, <<"x", "=", "1", ";">>, "missing operand"),
  Frag("S", <<"function", "(", ")", "{", "}">>, <<"function", "k", "(", ")", "{", "}">>, "missing function name"),
  Frag("S", <<"foreach", "v", "in", "a", "y", "=", "1", ";", "}">>, <<"foreach", "v", "in", "a", "{", "y", "=", "1", ";", "}">>, "unbalanced"),
  Frag("S", <<"foreach", "v", "in", "a", "q", "y", "=", "1", ";", "}">>, <<"foreach", "v", "in", "a", "{", "y", "=", "1", ";", "}">>, "unbalanced"),
  Frag("S", <<"foreach", "#", "in", "a", "{", "}">>, <<"foreach", "v", "in", "a", "{", "}">>, "illegal character"),
  Frag("S", <<"foreach", "1", "in", "a", "{", "}">>, <<"foreach", "v", "in", "a", "{", "}">>, "loop variable is not a name"),
  Frag("S", <<"foreach", "i", ",", "2", "in", "a", "{", "}">>, <<"foreach", "i", ",", "v", "in", "a", "{", "}">>, "loop variable is not a name"),
  Frag("S", <<"function", "k", "(", "#", ")", "{", "}">>, <<"function", "k", "(", "z", ")", "{", "}">>, "illegal character"),
  Frag("S", <<"function", "1", "(", "z", ")", "{", "}">>, <<"function", "k", "(", "z", ")", "{", "}">>, "function name is not a name"),
  Frag("S", <<"function", "k", "(", "z", ",", ",", "w", ")", "{", "}">>, <<"function", "k", "(", "z", ",", "w", ")", "{", "}">>, "parameter is not a name"),
  Frag("S", <<"function", "k", "(", "z", ",", "3", ")", "{", "}">>, <<"function", "k", "(", "z", ",", "w", ")", "{", "}">>, "parameter is not a name"),
  Frag("E", <<"1", "+", "#">>, <<"1", "+", "2">>, "illegal character"),
  Frag("E", <<"\"a\"", "+", "\"b">>, <<"\"a\"", "+", "\"b\"">>, "unterminated string")
>>
NF == Len(Frags)

\* ---- contexts ---------------------------------------------------------------------------
\* statement contexts: <<prefix, suffix, opens a function?>>
SCtx == <<
  <<<<>>, <<>>, FALSE>>,
  <<<<"if", "(", "true", ")", "{">>, <<"}">>, FALSE>>,
  <<<<"if", "(", "false", ")", "{", "y", "=", "0", ";", "}", "else", "{">>, <<"}">>, FALSE>>,
  <<<<"if", "(", "false", ")", "{", "y", "=", "0", ";", "}", "else", "if", "(", "true", ")", "{">>, <<"}">>, FALSE>>,
  <<<<"while", "(", "false", ")", "{">>, <<"}">>, FALSE>>,
  <<<<"foreach", "v", "in", "[", "1", "]", "{">>, <<"}">>, FALSE>>,
  <<<<"function", "g", "(", ")", "{">>, <<"}">>, TRUE>>,
  <<<<"switch", "(", "1", ")", "{", "case", "1", "{">>, <<"}", "}">>, FALSE>>,
  <<<<"switch", "(", "1", ")", "{", "default", "{">>, <<"}", "}">>, FALSE>>,
  <<<<"y", "=", "0", ";">>, <<"y", "=", "1", ";">>, FALSE>>,         \* between other statements
  <<<<"function", "h", "(", ")", "{", "return", "1", ";", "}">>, <<>>, FALSE>>,      \* after a complete function definition
  <<<<"if", "(", "true", ")", "{", "return", "1", ";">>, <<"}">>, FALSE>>,            \* after a return in the same block
  <<<<"function", "g", "(", ")", "{", "return", "1", ";">>, <<"}">>, TRUE>>,
  <<<<"if", "(", "x", ")", "{", "if", "(", "y", ")", "{", "}", "}">>, <<"return", "1", ";">>, FALSE>>   \* after nested blocks, before a return
>>
NSC == Len(SCtx)

\* expression contexts: <<prefix, suffix, is a ternary arm?>>
ECtx == <<
  <<<<"r", "=">>, <<";">>, FALSE>>,
  <<<<"r", "=", "true", "?">>, <<":", "2", ";">>, TRUE>>,
  <<<<"r", "=", "true", "?", "1", ":">>, <<";">>, TRUE>>,
  <<<<"t", "(">>, <<")", ";">>, FALSE>>,
  <<<<"t", "(", "1", ",">>, <<",", "3", ")", ";">>, FALSE>>,
  <<<<"r", "=", "[", "1", ",">>, <<"]", ";">>, FALSE>>,
  <<<<"r", "=", "{", "\"k\"", ":">>, <<"}", ";">>, FALSE>>,
  <<<<"r", "=", "a", "[">>, <<"]", ";">>, FALSE>>,
  <<<<"return">>, <<";">>, FALSE>>,
  <<<<"r", "=", "1", "+", "(">>, <<")", ";">>, FALSE>>,
  <<<<"if", "(">>, <<")", "{", "}">>, FALSE>>,
  <<<<"switch", "(", "1", ")", "{", "case">>, <<"{", "}", "}">>, FALSE>>,
  \* the value of a switch: with a case, with only a default block, with no arm at all
  <<<<"switch", "(">>, <<")", "{", "case", "1", "{", "}", "}">>, FALSE>>,
  <<<<"switch", "(">>, <<")", "{", "default", "{", "y", "=", "0", ";", "}", "}">>, FALSE>>,
  <<<<"switch", "(">>, <<")", "{", "}">>, FALSE>>,
  <<<<"while", "(">>, <<")", "{", "y", "=", "0", ";", "}">>, FALSE>>,
  <<<<"foreach", "v", "in">>, <<"{", "}">>, FALSE>>,
  <<<<"r", "=", "-", "(">>, <<")", ";">>, FALSE>>,
  <<<<"r", "=", "(">>, <<")", "[", "0", "]", ";">>, FALSE>>
>>
NEC == Len(ECtx)

\* wrap tokens in the chain of statement contexts cs (outermost first)
RECURSIVE WrapS(_, _)
WrapS(cs, ts) == IF Len(cs) = 0 THEN ts ELSE SCtx[cs[1]][1] \o WrapS(Tail(cs), ts) \o SCtx[cs[1]][2]
InFunction(cs) == \E i \in 1..Len(cs) : SCtx[cs[i]][3]

Text(f, ec, cs, good) ==
  LET core == IF good THEN Frags[f].good ELSE Frags[f].bad
      stmt == IF Frags[f].pos = "E" THEN ECtx[ec][1] \o core \o ECtx[ec][2] ELSE core
  IN WrapS(cs, stmt)

\* is the "bad" variant really invalid in this context?  (local is fine inside a function)
BadIsInvalid(f, cs) == ~(Frags[f].why = "local outside a function" /\ InFunction(cs))

MkRows(f, ec, cs) ==
  [k |-> "reject", why |-> Frags[f].why, depth |-> Len(cs),
   bad |-> Text(f, ec, cs, FALSE), badinvalid |-> BadIsInvalid(f, cs),
   good |-> Text(f, ec, cs, TRUE), done |-> TRUE]

\* ---- truncations of valid programs --------------------------------------------------------
Valid == <<
  <<"if", "(", "a", "==", "1", ")", "{", "x", "=", "[", "1", ",", "2", "]", ";", "}", "else", "{", "return", "t", "(", "x", ")", ";", "}", "return", "false", ";">>,
  <<"function", "f", "(", "a", ",", "b", ")", "{", "local", "c", ";", "foreach", "i", ",", "v", "in", "a", "{", "c", "=", "v", "+", "b", ";", "}", "return", "c", ";", "}", "return", "f", "(", "[", "1", "]", ",", "2", ")", ";">>,
  <<"switch", "(", "x", ")", "{", "case", "1", ",", "2", "{", "y", "=", "{", "\"k\"", ":", "a", "[", "0", "]", "}", ";", "}", "default", "{", "while", "(", "y", "<", "3", ")", "{", "y", "++", ";", "}", "}", "}", "return", "y", ";">>,
  <<"r", "=", "(", "a", "?", "(", "b", "+", "1", ")", ":", "t", "(", "c", ",", "[", "d", "]", ")", ")", ";", "return", "r", ";">>
>>
TruncRow(v, n) == [k |-> "trunc", why |-> "truncated with a bracket open", prefix |-> SubSeq(Valid[v], 1, n), whole |-> Valid[v], done |-> TRUE]

Init ==
  \/ \E f \in 1..NF : row = [k |-> "r0", f |-> f, done |-> FALSE]
  \/ \E v \in 1..Len(Valid) : row = [k |-> "t0", v |-> v, done |-> FALSE]

MaxDepth == IF Tier = "quick" THEN 2 ELSE 3

Next ==
  /\ ~row.done
  /\ \/ /\ row.k = "r0"
        /\ \E ec \in 1..NEC, d \in 0..MaxDepth :
             /\ (Frags[row.f].pos = "S" => ec = 1)
             \* a ternary is not put inside a ternary arm (that is the nested-ternary fragment itself)
             /\ ~(ECtx[ec][3] /\ Frags[row.f].why = "nested ternary")
             /\ \E cs \in [1..d -> 1..NSC] :
                  \* `local` written inside a function but after a nested function definition: the
                  \* statement does not say; not generated
                  /\ ~(Frags[row.f].why = "local outside a function" /\ InFunction(cs) /\ \E i \in 1..d : cs[i] = 11)
                  /\ row' = MkRows(row.f, ec, cs)
     \/ /\ row.k = "t0"
        /\ \E n \in 1..(Len(Valid[row.v]) - 1) :
             /\ OpenAfter(SubSeq(Valid[row.v], 1, n), 1, <<>>) # <<>>
             /\ row' = TruncRow(row.v, n)

Spec == Init /\ [][Next]_vars

\* ---- checked on the model: the reasons are real -------------------------------------------
\* repaired siblings and whole programs are bracket-balanced; fragments said to be unbalanced are not
ReasonsHold ==
  /\ (row.done /\ row.k = "reject") =>
        /\ Balanced(row.good)
        /\ (row.why = "unbalanced" => ~Balanced(row.bad))
  /\ (row.done /\ row.k = "trunc") => Balanced(row.whole) /\ ~Balanced(row.prefix)

Export == row.done => PrintT(<<"ROW", ToJson(row)>>)
=============================================================================
