----------------------------- MODULE EFOptimizer -----------------------------
(***************************************************************************)
(* The peephole optimizer, structured like vm/optimizer.go: four passes    *)
(* over one body of machine code.                                          *)
(*   maths   fold "push a; push b; op" (+ - * / == != and the root of a    *)
(*           perfect square) into one instruction, turning the rest into   *)
(*           NOPs, one fold per walk, until nothing changes (a constant    *)
(*           division by zero stops the pass)                              *)
(*   jumps   "true; jump-if-false" disappears; "false; jump-if-false L"    *)
(*           turns everything up to L into NOPs; until nothing changes     *)
(*   nops    NOPs are removed and jump targets re-mapped                   *)
(*   dead    a body with no jump before its first return ends there        *)
(* On the model TLC checks, for every enumerated program, that a fold      *)
(* never spans a jump target (FoldsSafe: the side condition under which    *)
(* folding is sound) and that optimised code is still well formed; the     *)
(* harness compares the model's output with the real optimizer's.          *)
(***************************************************************************)
EXTENDS EFCompiler

SetByte(c, off, b) == [c EXCEPT ![off + 1] = b]                        \* 0-based offset
SetArg(c, off, n) == [c EXCEPT ![off + 2] = Hi(n), ![off + 3] = Lo(n)]
Nop3(c, off) == [c EXCEPT ![off + 1] = OpNop, ![off + 2] = OpNop, ![off + 3] = OpNop]

RECURSIVE ISqrtUp(_, _)
ISqrtUp(n, k) == IF k * k >= n THEN k ELSE ISqrtUp(n, k + 1)
MulFits(a, b) == a = 0 \/ b <= 65534 \div a

\* the targets of all jumps of a body
RECURSIVE JumpTargets(_, _)
JumpTargets(c, i) ==
  IF i >= Len(c) THEN {}
  ELSE LET op == ByteAt(c, i) IN
       (IF op \in {OpJump, OpJumpIfFalse} THEN {ArgAt(c, i)} ELSE {}) \cup JumpTargets(c, i + OpLen(op))

\* <<source offset, target>> of all jumps of a body
RECURSIVE JumpPairs(_, _)
JumpPairs(c, i) ==
  IF i >= Len(c) THEN {}
  ELSE LET op == ByteAt(c, i) IN
       (IF op \in {OpJump, OpJumpIfFalse} THEN {<<i, ArgAt(c, i)>>} ELSE {}) \cup JumpPairs(c, i + OpLen(op))

(***************************************************************************)
(* maths: one walk.  args is the list of <<offset, value>> of the pushes   *)
(* seen since the last instruction which is neither a push nor a NOP.      *)
(* Result: [code, changed, stop (division by zero), safe].                 *)
(***************************************************************************)
RECURSIVE MathsWalk(_, _, _, _)
MathsWalk(c, i, args, targets) ==
  IF i >= Len(c) THEN [code |-> c, changed |-> FALSE, stop |-> FALSE, safe |-> TRUE]
  ELSE
  LET op == ByteAt(c, i)  nxt == i + OpLen(op)  n == Len(args) IN
  CASE op = OpPush -> MathsWalk(c, nxt, Append(args, <<i, ArgAt(c, i)>>), targets)
    [] op = OpNop -> MathsWalk(c, nxt, args, targets)
    [] op = OpSquareRoot ->
         IF n >= 1 THEN
              (LET a == args[n]  k == ISqrtUp(a[2], 0) IN
               IF k * k = a[2] /\ k <= 65534
               THEN [code |-> SetByte(SetArg(c, a[1], k), i, OpNop), changed |-> TRUE, stop |-> FALSE,
                     safe |-> \A t \in targets : ~(t > a[1] /\ t <= i)]
               ELSE MathsWalk(c, nxt, <<>>, targets))
         ELSE MathsWalk(c, nxt, <<>>, targets)
    [] op \in {OpEqual, OpNotEqual} ->
         IF n >= 2 THEN
              (LET a == args[n]  b == args[n - 1]
                   truth == IF op = OpEqual THEN a[2] = b[2] ELSE a[2] # b[2] IN
               [code |-> SetByte(Nop3(Nop3(c, a[1]), b[1]), i, IF truth THEN OpTrue ELSE OpFalse),
                changed |-> TRUE, stop |-> FALSE, safe |-> \A t \in targets : ~(t > b[1] /\ t <= i)])
         ELSE MathsWalk(c, nxt, <<>>, targets)
    [] op \in {OpMul, OpAdd, OpSub, OpDiv} ->
         IF n >= 2 THEN
              (LET a == args[n]  b == args[n - 1] IN
               IF op = OpDiv /\ a[2] = 0 THEN [code |-> c, changed |-> FALSE, stop |-> TRUE, safe |-> TRUE]
               ELSE LET fits == CASE op = OpMul -> MulFits(a[2], b[2])
                                  [] op = OpAdd -> a[2] + b[2] <= 65534
                                  [] op = OpSub -> b[2] - a[2] >= 0
                                  [] op = OpDiv -> TRUE
                        res == CASE op = OpMul -> a[2] * b[2] [] op = OpAdd -> a[2] + b[2]
                                 [] op = OpSub -> b[2] - a[2] [] op = OpDiv -> b[2] \div a[2]
                    IN IF fits
                       THEN [code |-> SetByte(Nop3(SetArg(c, a[1], res), b[1]), i, OpNop), changed |-> TRUE, stop |-> FALSE,
                             safe |-> \A t \in targets : ~(t > b[1] /\ t <= i)]
                       ELSE MathsWalk(c, nxt, <<>>, targets))
         ELSE MathsWalk(c, nxt, <<>>, targets)
    [] OTHER -> MathsWalk(c, nxt, <<>>, targets)

RECURSIVE MathsLoop(_, _)
MathsLoop(c, safe) ==
  LET r == MathsWalk(c, 0, <<>>, JumpTargets(c, 0)) IN
  IF r.stop \/ ~r.changed THEN [code |-> c, safe |-> safe] ELSE MathsLoop(r.code, safe /\ r.safe)

(***************************************************************************)
(* jumps: one walk; prev is the opcode of the previous instruction.        *)
(***************************************************************************)
RECURSIVE NopRange(_, _, _)
NopRange(c, from, to) == IF from >= to THEN c ELSE NopRange(SetByte(c, from, OpNop), from + 1, to)

RECURSIVE JumpsWalk(_, _, _, _)
JumpsWalk(c, i, prev, targets) ==
  IF i >= Len(c) THEN [code |-> c, changed |-> FALSE, safe |-> TRUE]
  ELSE LET op == ByteAt(c, i) IN
       IF op = OpJumpIfFalse /\ prev = OpTrue
       THEN [code |-> NopRange(c, i - 1, i + 3), changed |-> TRUE, safe |-> i \notin targets]
       ELSE IF op = OpJumpIfFalse /\ prev = OpFalse
       THEN [code |-> NopRange(c, i - 1, ArgAt(c, i)), changed |-> TRUE,
             \* nothing outside the removed stretch may jump into it
             safe |-> \A p \in JumpPairs(c, 0) :
                        (p[2] > i - 1 /\ p[2] < ArgAt(c, i)) => (p[1] >= i - 1 /\ p[1] < ArgAt(c, i))]
       ELSE JumpsWalk(c, i + OpLen(op), op, targets)

RECURSIVE JumpsLoop(_, _)
JumpsLoop(c, safe) ==
  LET r == JumpsWalk(c, 0, OpNop, JumpTargets(c, 0)) IN
  IF ~r.changed THEN [code |-> c, safe |-> safe] ELSE JumpsLoop(r.code, safe /\ r.safe)

(***************************************************************************)
(* nops: copy everything but NOPs, remember old -> new offsets, re-target. *)
(***************************************************************************)
RECURSIVE Strip(_, _, _, _)
\* returns <<new code, map as a sequence of <<old, new>>>>
Strip(c, i, out, map) ==
  IF i >= Len(c) THEN <<out, map>>
  ELSE LET op == ByteAt(c, i) IN
       IF op = OpNop THEN Strip(c, i + 1, out, Append(map, <<i, Len(out)>>))
       ELSE Strip(c, i + OpLen(op), out \o SubSeq(c, i + 1, i + OpLen(op)), Append(map, <<i, Len(out)>>))

MapHas(map, k) == \E j \in 1..Len(map) : map[j][1] = k
MapGet(map, k) == map[CHOOSE j \in 1..Len(map) : map[j][1] = k][2]

RECURSIVE Retarget(_, _, _)
\* <<code, complete?>>: stops (leaving the rest untouched) at a jump whose target has no new offset
Retarget(c, i, map) ==
  IF i >= Len(c) THEN <<c, TRUE>>
  ELSE LET op == ByteAt(c, i) IN
       IF op \in {OpJump, OpJumpIfFalse}
       THEN (IF MapHas(map, ArgAt(c, i)) THEN Retarget(SetArg(c, i, MapGet(map, ArgAt(c, i))), i + 3, map) ELSE <<c, FALSE>>)
       ELSE Retarget(c, i + OpLen(op), map)

RemoveNops(c) ==
  LET r == Strip(c, 0, <<>>, <<>>) IN
  IF Len(r[1]) = Len(c) THEN c
  ELSE LET t == Retarget(r[1], 0, r[2]) IN IF t[2] THEN t[1] ELSE c      \* (an unmapped target: the original is kept)

(***************************************************************************)
(* dead: up to the first return, unless a jump comes first.                *)
(***************************************************************************)
RECURSIVE DeadWalk(_, _, _)
DeadWalk(c, i, out) ==
  IF i >= Len(c) THEN c
  ELSE LET op == ByteAt(c, i) IN
       IF op \in {OpJump, OpJumpIfFalse} THEN c
       ELSE IF op = OpReturn THEN Append(out, OpReturn)
       ELSE DeadWalk(c, i + OpLen(op), out \o SubSeq(c, i + 1, i + OpLen(op)))

OptimizeBody(c) ==
  LET m == MathsLoop(c, TRUE)
      j == JumpsLoop(m.code, TRUE)
  IN [code |-> DeadWalk(RemoveNops(j.code), 0, <<>>), safe |-> m.safe /\ j.safe]

\* the whole compiled program: main body and every function body
Optimize(cc) ==
  LET main == OptimizeBody(cc.code)
      fs == [i \in 1..Len(cc.funcs) |-> OptimizeBody(cc.funcs[i][3])]
  IN [code |-> main.code, consts |-> cc.consts,
      funcs |-> [i \in 1..Len(cc.funcs) |-> <<cc.funcs[i][1], cc.funcs[i][2], fs[i].code>>],
      ok |-> cc.ok,
      safe |-> main.safe /\ \A i \in 1..Len(cc.funcs) : fs[i].safe]
=============================================================================
