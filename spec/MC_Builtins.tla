----------------------------- MODULE MC_Builtins -----------------------------
(***************************************************************************)
(* C17: built-in functions keep their documented contracts.                *)
(*  - min / max over all ordered pairs, between over all triples, of a     *)
(*    numeric set with multi-digit, negative and mixed int / float         *)
(*    members; TLC checks the laws tying them to < and <= of EFValues;     *)
(*  - split / join over short strings and separators (empty, multi-byte),  *)
(*    with the law join(split(s, d), d) = s;                               *)
(*  - sort / reverse over arrays of mixed values, with and without the     *)
(*    case flag, the input re-read afterwards;                             *)
(*  - len lower upper trim string int float type keys match over every     *)
(*    value type;                                                          *)
(*  - every built-in with 0..4 arguments of every type: wrong counts and   *)
(*    types yield null (false for match), never a failure;                 *)
(*  - hour minute seconds day month year weekday in UTC by a civil-        *)
(*    calendar computation (other zones are checked against the host's     *)
(*    time library by the harness).                                        *)
(***************************************************************************)
EXTENDS EFCorpus, Json

CONSTANT Tier,
         Seed      \* >= 1: shifts which part of a sampled family is taken (1 = the default sample)

VARIABLE row
vars == <<row>>

Fuel == 20
L(v) == <<"lit", v>>
Call(f, as) == CallE(f, as)

Nums == << F(-183, 2), I(-10), I(-9), I(-1), I(0), F(1, 2), I(1), I(2), I(9), F(19, 2), I(10), F(10, 1), I(11), I(99), I(100), I(1000), F(9, 1) >>
NN == Len(Nums)

\* "a" 97  "," 44  " " 32  "é" 233  "b" 98  "A" 65
Strs == << S(<<>>), S(<<97>>), S(<<44>>), S(<<97, 44, 98>>), S(<<44, 97, 44>>), S(<<44, 44>>), S(<<97, 32, 98, 32>>), S(<<233, 44, 233>>),
           S(<<97, 44, 32, 98, 44, 32, 99>>), S(<<32, 97, 32>>), S(<<65, 98>>), S(<<47, 117, 115, 114, 47, 98>>) >>
SepsB == << S(<<44>>), S(<<>>), S(<<44, 32>>), S(<<233>>), S(<<32>>), S(<<47>>), S(<<97, 44>>) >>

Arrays == << A(<<>>), A(<<S(<<98>>)>>), A(<<S(<<98>>), S(<<97>>)>>), A(<<S(<<98>>), S(<<65>>), S(<<97>>)>>),
             A(<<I(3), I(1), I(2)>>), A(<<I(10), I(9), I(100)>>), A(<<S(<<98>>), I(3), B(TRUE)>>), A(<<F(3, 2), I(1), S(<<49>>)>>),
             A(<<S(<<66>>), S(<<97>>), S(<<67>>), S(<<98>>)>>), A(<<S(<<>>), S(<<32>>), S(<<97>>)>>), A(<<I(-1), I(-10), I(5)>>) >>

\* one value of each type, for the arity / type tables
AnyV == << I(3), F(3, 2), S(<<97, 98>>), B(TRUE), N, A(<<I(1), S(<<97>>)>>), H(<<<<S(<<107>>), I(1)>>>>), R(<<97>>, "") >>
NAny == Len(AnyV)

Names == << "between", "float", "int", "join", "keys", "len", "lower", "match", "max", "min", "reverse", "sort",
            "split", "string", "trim", "type", "upper", "hour", "minute", "seconds", "day", "month", "year", "weekday", "replace" >>

\* ---- civil calendar (UTC): days since 1970-01-01 to year / month / day -----------------
FloorDiv(a, b) == IF a >= 0 THEN a \div b ELSE -(((-a - 1) \div b) + 1)
CivilFromDays(z0) ==
  LET z == z0 + 719468
      era == FloorDiv(z, 146097)
      doe == z - era * 146097
      yoe == (doe - doe \div 1460 + doe \div 36524 - doe \div 146096) \div 365
      y == yoe + era * 400
      doy == doe - (365 * yoe + yoe \div 4 - yoe \div 100)
      mp == (5 * doy + 2) \div 153
      d == doy - (153 * mp + 2) \div 5 + 1
      m == IF mp < 10 THEN mp + 3 ELSE mp - 9
  IN <<IF m <= 2 THEN y + 1 ELSE y, m, d>>
WeekdayNames == << <<83,117,110,100,97,121>>, <<77,111,110,100,97,121>>, <<84,117,101,115,100,97,121>>, <<87,101,100,110,101,115,100,97,121>>,
                   <<84,104,117,114,115,100,97,121>>, <<70,114,105,100,97,121>>, <<83,97,116,117,114,100,97,121>> >>
TimeField(name, ts) ==
  LET days == FloorDiv(ts, 86400)
      secs == ts - days * 86400
      ymd == CivilFromDays(days)
  IN CASE name = "hour" -> I(secs \div 3600)
       [] name = "minute" -> I((secs % 3600) \div 60)
       [] name = "seconds" -> I(secs % 60)
       [] name = "year" -> I(ymd[1])
       [] name = "month" -> I(ymd[2])
       [] name = "day" -> I(ymd[3])
       [] name = "weekday" -> S(WeekdayNames[((((days + 4) % 7) + 7) % 7) + 1])      \* 1970-01-01 was a Thursday
Instants == << 0, 1, -1, 59, 60, 3599, 3600, 86399, 86400, -86400, 951782400, 951868799, 951868800, 1078012800, 1709164800, 1709251199,
               1735689599, 1735689600, 2147483647, -2147400000, 1640993415, 946684799, 946684800, 978307200, 68169599, 68169600 >>
\* thorough: a sweep over 1936 .. 2037, one instant every 31 days at a varying second of the day
Sweep == [k \in 1..1200 |-> (k - 400) * 2678400 + ((k * 7919) % 86400)]
\* thorough: every string of length 0..4 over "a", "," and " "
RECURSIVE Words(_)
Words(n) == IF n = 0 THEN {<<>>} ELSE LET w == Words(n - 1) IN w \cup {Append(x, c) : x \in w, c \in {97, 44, 32}}
\* spellings a number parser with "automatic base" or digit separators would read differently: leading zeros,
\* 0x / 0b / 0o prefixes, underscores            010  0755  08  09  0x1f  0X1F  1_000  0b101  0o17  -07  00  -0  0x  0_1  1e3
NumStrs == << <<48,49,48>>, <<48,55,53,53>>, <<48,56>>, <<48,57>>, <<48,120,49,102>>, <<48,88,49,70>>, <<49,95,48,48,48>>, <<48,98,49,48,49>>,
              <<48,111,49,55>>, <<45,48,55>>, <<48,48>>, <<45,48>>, <<48,120>>, <<48,95,49>>, <<49,101,51>> >>
TimeNames == <<"hour", "minute", "seconds", "day", "month", "year", "weekday">>

\* the time built-ins take an integer; anything else, or a wrong count, gives null
BuiltinT(name, args) ==
  IF name \in {"hour", "minute", "seconds", "day", "month", "year", "weekday"}
  THEN (IF Len(args) = 1 /\ IsInt(args[1]) THEN TimeField(name, args[1][2]) ELSE N)
  ELSE Builtin(name, args)

Expect(name, args) ==
  LET x == BuiltinT(name, args) IN IF x = PANIC THEN ERR ELSE IF x = V THEN SKIP ELSE x

ExprRow(kind, e, exp) == [k |-> kind, prov |-> "llll", e |-> e, exp |-> exp, done |-> TRUE]
CallRow(kind, name, args) == ExprRow(kind, Call(name, [i \in 1..Len(args) |-> L(args[i])]), Expect(name, args))

\* sort / reverse: result and the input re-read afterwards
SortProg(name, arr, flag) ==
  LET args == IF flag = 0 THEN <<Ref("a")>> ELSE <<Ref("a"), LitB(flag = 1)>> IN
  <<Asg("a", L(arr)), Asg("s", Call(name, args)), Ret(<<"arr", <<Ref("s"), Ref("a")>>>>)>>
SortRow(name, arr, flag) ==
  LET prog == SortProg(name, arr, flag)
      r == RunProgram(prog, <<>>, <<>>, <<>>, Fuel) IN
  [k |-> "sort", name |-> name, arr |-> arr, ci |-> (flag = 1), prog |-> prog, fns |-> <<>>, vars |-> <<>>,
   runs |-> <<[obj |-> <<>>, exp |-> [out |-> r.out]]>>, done |-> TRUE]

Init ==
  \/ \E a \in 1..NN : row = [k |-> "mm0", a |-> a, done |-> FALSE]
  \/ \E s \in 1..Len(Strs) : row = [k |-> "sj0", s |-> s, done |-> FALSE]
  \/ \E a \in 1..Len(Arrays) : row = [k |-> "so0", a |-> a, done |-> FALSE]
  \/ \E n \in 1..Len(Names) : row = [k |-> "ar0", name |-> Names[n], done |-> FALSE]
  \/ \E t \in 1..Len(TimeNames) : row = [k |-> "tm0", name |-> TimeNames[t], done |-> FALSE]
  \/ \E n \in {"len", "lower", "upper", "trim", "string", "int", "float", "type", "keys"} : row = [k |-> "cv0", name |-> n, done |-> FALSE]

Next ==
  /\ ~row.done
  /\ \/ /\ row.k = "mm0"
        /\ \/ \E b \in 1..NN, f \in {"min", "max"} : row' = CallRow("minmax", f, <<Nums[row.a], Nums[b]>>)
           \/ \E b \in 1..NN, c \in 1..NN :
                /\ (Tier = "thorough" \/ (row.a + 2 * b + 3 * c + Seed - 1) % 3 = 0)
                /\ row' = CallRow("between", "between", <<Nums[row.a], Nums[b], Nums[c]>>)
     \/ /\ row.k = "sj0"
        /\ \E d \in 1..Len(SepsB) :
             \/ row' = CallRow("split", "split", <<Strs[row.s], SepsB[d]>>)
             \/ row' = ExprRow("joinsplit", Call("join", <<Call("split", <<L(Strs[row.s]), L(SepsB[d])>>), L(SepsB[d])>>),
                               Expect("join", <<Builtin("split", <<Strs[row.s], SepsB[d]>>), SepsB[d]>>))
     \/ /\ row.k = "sj0" /\ row.s = 1 /\ Tier = "thorough"
        /\ \E w \in Words(4), d \in 1..Len(SepsB) :
             \/ row' = CallRow("split", "split", <<S(w), SepsB[d]>>)
             \/ row' = ExprRow("joinsplit", Call("join", <<Call("split", <<L(S(w)), L(SepsB[d])>>), L(SepsB[d])>>),
                               Expect("join", <<Builtin("split", <<S(w), SepsB[d]>>), SepsB[d]>>))
     \/ /\ row.k = "so0"
        /\ \/ \E f \in {"sort", "reverse"}, flag \in 0..2 : row' = SortRow(f, Arrays[row.a], flag)
           \/ \E d \in 1..Len(SepsB) : row' = CallRow("join", "join", <<Arrays[row.a], SepsB[d]>>)
     \/ /\ row.k = "ar0"
        /\ \/ row' = CallRow("arity", row.name, <<>>)
           \/ \E a \in 1..NAny : row' = CallRow("arity", row.name, <<AnyV[a]>>)
           \/ \E a \in 1..NAny, b \in 1..NAny : row' = CallRow("arity", row.name, <<AnyV[a], AnyV[b]>>)
           \/ \E a \in 1..NAny, b \in 1..NAny, c \in 1..NAny :
                /\ (Tier = "thorough" \/ (a + b + c + Seed - 1) % 3 = 0)
                /\ row' = CallRow("arity", row.name, <<AnyV[a], AnyV[b], AnyV[c]>>)
           \/ \E a \in 1..NAny : row' = CallRow("arity", row.name, <<AnyV[a], AnyV[1], AnyV[3], AnyV[4]>>)
           \/ /\ Tier = "thorough"
              /\ \E a \in 1..NAny, b \in 1..NAny, c \in 1..NAny, d \in 1..NAny :
                   row' = CallRow("arity", row.name, <<AnyV[a], AnyV[b], AnyV[c], AnyV[d]>>)
     \/ /\ row.k = "tm0"
        /\ \/ \E i \in 1..Len(Instants) : row' = CallRow("time", row.name, <<I(Instants[i])>>)
           \/ /\ Tier = "thorough"
              /\ \E k \in 1..1200 : row' = CallRow("time", row.name, <<I(Sweep[k])>>)
     \/ /\ row.k = "cv0"
        /\ \/ \E i \in 1..NV : row' = CallRow("convert", row.name, <<Vals[i]>>)
           \/ \E i \in 1..Len(Strs) : row' = CallRow("convert", row.name, <<Strs[i]>>)
           \/ /\ row.name \in {"int", "float", "string", "len"}
              /\ \E i \in 1..Len(NumStrs) : row' = CallRow("convert", row.name, <<S(NumStrs[i])>>)

Spec == Init /\ [][Next]_vars

\* ---- laws checked on the model ----------------------------------------------------------
LawsMinMax == (row.done /\ row.k = "minmax") =>
                 LET a == row.e[3][1][2]  b == row.e[3][2][2] IN LawMinMax(a, b)
LawsBetween == (row.done /\ row.k = "between") =>
                 LawBetween(row.e[3][1][2], row.e[3][2][2], row.e[3][3][2])
LawsJoinSplit == (row.done /\ row.k = "joinsplit") =>
                 LET s == row.e[3][1][3][1][2]  d == row.e[3][2][2] IN
                 (Len(d[2]) > 0 => row.exp = s)
LawsSort == (row.done /\ row.k = "sort" /\ row.name = "sort" /\ ~row.ci) => LawSort(row.arr)
\* wrong counts never fail
NoFailure == (row.done /\ row.k = "arity") => ~IsErr(row.exp)

Export == row.done => PrintT(<<"ROW", ToJson(row)>>)
=============================================================================
