------------------------------ MODULE EFValues ------------------------------
(***************************************************************************)
(* Reference specification of the evalfilter value universe: values,       *)
(* truthiness, printed forms, and every unary / binary / index / range     *)
(* operator on every pair of value types.                                  *)
(*                                                                         *)
(* Written from the README and the property statements, not from the code. *)
(* Where the language definition is silent the operators return SKIP       *)
(* ("unconstrained": the implementation may do anything but crash).        *)
(*                                                                         *)
(* Values are tagged tuples; the same tag always has the same shape:       *)
(*   <<"I", n>>            integer                                         *)
(*   <<"F", num, den>>     float, an exact rational, normalised, den > 0   *)
(*   <<"Q", num, den>>     float, the square root of num/den (irrational)  *)
(*   <<"S", cps>>          string, a sequence of Unicode code points       *)
(*   <<"B", b>>            boolean                                         *)
(*   <<"N">>               null           <<"V">>  void (no value)         *)
(*   <<"A", elems>>        array                                           *)
(*   <<"H", pairs>>        hash, sequence of <<key, value>>, keys distinct *)
(*   <<"R", cps, flags>>   regexp: pattern code points, flags "" "i" "m".. *)
(* Outcomes which are not values: <<"ERR">> (the run ends with an error),  *)
(* <<"SKIP">> (unconstrained).                                             *)
(***************************************************************************)
EXTENDS Integers, Sequences, FiniteSets, TLC

I(n)    == <<"I", n>>
S(cps)  == <<"S", cps>>
B(b)    == <<"B", b>>
N       == <<"N">>
V       == <<"V">>
A(es)   == <<"A", es>>
H(ps)   == <<"H", ps>>
R(p, f) == <<"R", p, f>>
ERR     == <<"ERR">>
SKIP    == <<"SKIP">>

Tag(v) == v[1]
IsInt(v)   == Tag(v) = "I"
IsFlt(v)   == Tag(v) = "F"
IsNum(v)   == Tag(v) \in {"I", "F"}
IsStr(v)   == Tag(v) = "S"
IsBool(v)  == Tag(v) = "B"
IsNull(v)  == Tag(v) = "N"
IsArr(v)   == Tag(v) = "A"
IsHash(v)  == Tag(v) = "H"
IsRe(v)    == Tag(v) = "R"
IsErr(v)   == Tag(v) = "ERR"
IsSkip(v)  == Tag(v) = "SKIP"
IsValue(v) == Tag(v) \in {"I", "F", "Q", "S", "B", "N", "V", "A", "H", "R"}

(***************************************************************************)
(* Integer helpers.  TLC integers are 32 bits wide and overflow is a       *)
(* run-time error, so every product is guarded; results outside the guard  *)
(* are outside the model (SKIP).                                           *)
(***************************************************************************)
Abs(x) == IF x < 0 THEN -x ELSE x
MaxInt == 2147483647
Small(x) == Abs(x) <= 1000000000            \* sums of two Small values cannot overflow
SafeMul(a, b) == a = 0 \/ b = 0 \/ Abs(b) <= (1000000000 \div Abs(a))

RECURSIVE Gcd(_, _)
Gcd(a, b) == IF b = 0 THEN a ELSE Gcd(b, a % b)

\* truncated division / remainder (sign of the dividend), b # 0
TDiv(a, b) == LET q == Abs(a) \div Abs(b) IN IF (a < 0) # (b < 0) THEN -q ELSE q
TMod(a, b) == a - b * TDiv(a, b)

\* normalised rational as a float value
F(n, d) == LET g == Gcd(Abs(n), Abs(d))
               s == IF d < 0 THEN -1 ELSE 1
           IN <<"F", s * (n \div g), s * (d \div g)>>

Num(v) == IF IsInt(v) THEN v[2] ELSE v[2]    \* numerator
Den(v) == IF IsInt(v) THEN 1 ELSE v[3]       \* denominator

RECURSIVE IsPow2(_)
IsPow2(d) == IF d = 1 THEN TRUE ELSE IF d % 2 # 0 THEN FALSE ELSE IsPow2(d \div 2)

\* A number the implementation's float64 holds exactly and whose arithmetic
\* with other such numbers the specification can follow exactly.
ExactNum(v) == /\ IsNum(v)
               /\ Abs(Num(v)) <= 70000 * 16
               /\ Den(v) <= 16
               /\ IsPow2(Den(v))

(***************************************************************************)
(* Truthiness: the single notion of truth (C05).                           *)
(***************************************************************************)
Truthy(v) ==
  CASE IsBool(v) -> v[2]
    [] IsInt(v)  -> v[2] > 0
    [] IsFlt(v)  -> v[2] > 0
    [] Tag(v) = "Q" -> TRUE
    [] IsStr(v)  -> Len(v[2]) > 0
    [] IsArr(v)  -> Len(v[2]) > 0
    [] IsHash(v) -> Len(v[2]) > 0
    [] IsRe(v)   -> Len(v[2]) > 0
    [] OTHER     -> FALSE

TypeName(v) ==
  CASE IsInt(v) -> "integer" [] IsFlt(v) -> "float" [] Tag(v) = "Q" -> "float"
    [] IsStr(v) -> "string"  [] IsBool(v) -> "boolean" [] IsNull(v) -> "null"
    [] IsArr(v) -> "array"   [] IsHash(v) -> "hash"    [] IsRe(v) -> "regexp"
    [] OTHER -> "void"

(***************************************************************************)
(* Printed forms, as code-point sequences.  Digits are produced here so    *)
(* that len(), string(), hash order and sort have a defined expectation.   *)
(* NoPrint marks a float whose decimal expansion the model does not        *)
(* produce (non-terminating or too long); anything depending on it is SKIP.*)
(***************************************************************************)
NoPrint == <<-1>>
Printable(cps) == cps # NoPrint

RECURSIVE NatDigits(_)
NatDigits(n) == IF n < 10 THEN <<48 + n>> ELSE NatDigits(n \div 10) \o <<48 + (n % 10)>>
IntDigits(n) == IF n < 0 THEN <<45>> \o NatDigits(-n) ELSE NatDigits(n)

RECURSIVE TrimZeros(_)
TrimZeros(ds) == IF Len(ds) > 0 /\ ds[Len(ds)] = 48 THEN TrimZeros(SubSeq(ds, 1, Len(ds) - 1)) ELSE ds

RECURSIVE PadLeft(_, _)
PadLeft(ds, n) == IF Len(ds) >= n THEN ds ELSE PadLeft(<<48>> \o ds, n)

\* decimal expansion of n/d when d divides 10000 and the value is small
FloatDigits(n, d) ==
  IF d = 1 THEN IntDigits(n)
  ELSE IF 10000 % d # 0 \/ Abs(n) > 200000 THEN NoPrint
  ELSE LET scaled == Abs(n) * (10000 \div d)
           ip == scaled \div 10000
           fp == TrimZeros(PadLeft(NatDigits(scaled % 10000), 4))
       IN (IF n < 0 THEN <<45>> ELSE <<>>) \o NatDigits(ip) \o <<46>> \o fp

StrTrue  == <<116, 114, 117, 101>>
StrFalse == <<102, 97, 108, 115, 101>>
StrNull  == <<110, 117, 108, 108>>

\* lexicographic order on code-point sequences (= UTF-8 byte order)
RECURSIVE SeqLess(_, _)
SeqLess(a, b) ==
  IF Len(b) = 0 THEN FALSE
  ELSE IF Len(a) = 0 THEN TRUE
  ELSE IF a[1] # b[1] THEN a[1] < b[1]
  ELSE SeqLess(Tail(a), Tail(b))

\* printed form of a hash key (keys are integers, floats or strings)
KeyPrint(k) == CASE Tag(k) = "I" -> IntDigits(k[2]) [] Tag(k) = "F" -> FloatDigits(k[2], k[3])
                 [] Tag(k) = "S" -> k[2] [] OTHER -> NoPrint

\* hash entries are ordered by the printed form of their keys; between keys which print
\* alike (1, 1.0, "1") the order is not specified
RECURSIVE InsertPair(_, _), SortPairs(_)
InsertPair(p, sorted) ==
  IF Len(sorted) = 0 THEN <<p>>
  ELSE IF SeqLess(KeyPrint(p[1]), KeyPrint(sorted[1][1])) THEN <<p>> \o sorted
  ELSE <<sorted[1]>> \o InsertPair(p, Tail(sorted))
SortPairs(ps) == IF Len(ps) = 0 THEN <<>> ELSE InsertPair(ps[Len(ps)], SortPairs(SubSeq(ps, 1, Len(ps) - 1)))
PairOrderDefined(ps) == /\ \A i \in 1..Len(ps) : KeyPrint(ps[i][1]) # NoPrint
                        /\ \A i \in 1..Len(ps), j \in 1..Len(ps) : i # j => KeyPrint(ps[i][1]) # KeyPrint(ps[j][1])

RECURSIVE Inspect(_), JoinInspect(_, _), PairsInspect(_, _)
Inspect(v) ==
  CASE IsInt(v)  -> IntDigits(v[2])
    [] IsFlt(v)  -> FloatDigits(v[2], v[3])
    [] IsStr(v)  -> v[2]
    [] IsBool(v) -> IF v[2] THEN StrTrue ELSE StrFalse
    [] IsNull(v) -> StrNull
    [] IsRe(v)   -> NoPrint
    [] IsArr(v)  -> LET body == JoinInspect(v[2], 1) IN
                    IF body = NoPrint THEN NoPrint ELSE <<91>> \o body \o <<93>>
    [] IsHash(v) -> IF ~PairOrderDefined(v[2]) THEN NoPrint
                    ELSE LET body == PairsInspect(SortPairs(v[2]), 1) IN
                         IF body = NoPrint THEN NoPrint ELSE <<123>> \o body \o <<125>>
    [] OTHER     -> NoPrint
JoinInspect(es, i) ==
  IF i > Len(es) THEN <<>>
  ELSE LET h == Inspect(es[i])  t == JoinInspect(es, i + 1) IN
       IF h = NoPrint \/ t = NoPrint THEN NoPrint
       ELSE IF i = Len(es) THEN h ELSE h \o <<44, 32>> \o t
PairsInspect(ps, i) ==
  IF i > Len(ps) THEN <<>>
  ELSE LET k == Inspect(ps[i][1]) w == Inspect(ps[i][2]) t == PairsInspect(ps, i + 1) IN
       IF k = NoPrint \/ w = NoPrint \/ t = NoPrint THEN NoPrint
       ELSE IF i = Len(ps) THEN k \o <<58, 32>> \o w ELSE k \o <<58, 32>> \o w \o <<44, 32>> \o t

(***************************************************************************)
(* Orders.                                                                 *)
(***************************************************************************)
\* numeric order on I/F values by cross multiplication (guarded by the caller)
NumLess(a, b)  == Num(a) * Den(b) < Num(b) * Den(a)
NumEq(a, b)    == Num(a) * Den(b) = Num(b) * Den(a)
NumCmpOK(a, b) == SafeMul(Num(a), Den(b)) /\ SafeMul(Num(b), Den(a))

(***************************************************************************)
(* Arithmetic.                                                             *)
(***************************************************************************)
IntArith(op, a, b) ==
  CASE op = "+" -> IF Small(a) /\ Small(b) THEN I(a + b) ELSE SKIP
    [] op = "-" -> IF Small(a) /\ Small(b) THEN I(a - b) ELSE SKIP
    [] op = "*" -> IF SafeMul(a, b) THEN I(a * b) ELSE SKIP
    [] op = "/" -> IF b = 0 THEN ERR
                   ELSE IF a % Abs(b) = 0 \/ (a >= 0 /\ b > 0) THEN I(TDiv(a, b))
                   ELSE SKIP       \* rounding direction of an inexact negative quotient: unspecified
    [] op = "%" -> IF b = 0 THEN ERR
                   ELSE IF a >= 0 /\ b > 0 THEN I(a % b)
                   ELSE SKIP       \* sign of the remainder with negative operands: unspecified

RECURSIVE IntPow(_, _)
IntPow(a, n) == IF n = 0 THEN 1 ELSE a * IntPow(a, n - 1)
\* a ** n for small non-negative n, guarded
PowOK(a, n) == n >= 0 /\ n <= 20 /\ (Abs(a) <= 1 \/ (Abs(a) <= 10 /\ n <= 8) \/ (Abs(a) <= 300 /\ n <= 3) \/ (Abs(a) <= 30000 /\ n <= 2) \/ n <= 1)

\* a and b are I/F; at least one is F, or the operator demands float
FltArith(op, a, b) ==
  IF ~(ExactNum(a) /\ ExactNum(b)) THEN SKIP
  ELSE LET an == Num(a) ad == Den(a) bn == Num(b) bd == Den(b) IN
  CASE op = "+" -> F(an * bd + bn * ad, ad * bd)
    [] op = "-" -> F(an * bd - bn * ad, ad * bd)
    [] op = "*" -> IF SafeMul(an, bn) THEN F(an * bn, ad * bd) ELSE SKIP
    [] op = "/" -> IF bn = 0 THEN ERR
                   ELSE IF SafeMul(an, bd) /\ SafeMul(ad, bn) THEN F(an * bd, ad * bn) ELSE SKIP
    [] op = "%" -> IF bn = 0 THEN ERR
                   \* "computed in float": defined here only for integral operands, where
                   \* every reading of a float remainder agrees
                   ELSE IF ad = 1 /\ bd = 1 /\ an >= 0 /\ bn > 0 THEN F(an % bn, 1)
                   ELSE SKIP

Arith(op, l, r) ==
  IF op = "**" THEN
       IF IsInt(l) /\ IsInt(r) THEN
            IF PowOK(l[2], r[2]) THEN I(IntPow(l[2], r[2]))
            \* a negative exponent: integer arithmetic stays integer, so the real value (of magnitude below one
            \* unless the base is 1 or -1) is cut to an integer; a zero base has no value to cut
            ELSE IF r[2] < 0 /\ r[2] >= -20 /\ l[2] # 0
                 THEN (IF l[2] = 1 THEN I(1)
                       ELSE IF l[2] = -1 THEN I(IF (-r[2]) % 2 = 0 THEN 1 ELSE -1)
                       ELSE I(0))
            ELSE SKIP
       ELSE IF IsInt(r) /\ ExactNum(l) /\ Den(l) = 1 /\ PowOK(Num(l), r[2]) THEN F(IntPow(Num(l), r[2]), 1)
       ELSE IF IsFlt(r) /\ Den(r) = 1 /\ ExactNum(l) /\ Den(l) = 1 /\ PowOK(Num(l), Num(r)) THEN F(IntPow(Num(l), Num(r)), 1)
       ELSE SKIP
  ELSE IF IsInt(l) /\ IsInt(r) THEN IntArith(op, l[2], r[2])
  ELSE FltArith(op, l, r)

(***************************************************************************)
(* A small regular-expression matcher (unanchored search) for the subset   *)
(* literal characters, '.', '^' at the start, '$' at the end, postfix '*', *)
(* flag i.  Patterns outside the subset make the operator SKIP.            *)
(***************************************************************************)
Meta == {36, 40, 41, 42, 43, 46, 63, 91, 92, 93, 94, 123, 124, 125}   \* $ ( ) * + . ? [ \ ] ^ { | }
Lower(c) == IF c >= 65 /\ c <= 90 THEN c + 32 ELSE c

\* body = pattern without leading ^ and trailing $
ReBody(p) == LET a == IF Len(p) > 0 /\ p[1] = 94 THEN 2 ELSE 1
                 b == IF Len(p) >= a /\ p[Len(p)] = 36 THEN Len(p) - 1 ELSE Len(p)
             IN SubSeq(p, a, b)
ReAnchStart(p) == Len(p) > 0 /\ p[1] = 94
ReAnchEnd(p)   == Len(p) > 0 /\ p[Len(p)] = 36

\* the body must consist of atoms (literal or '.') each optionally followed by '*'
RECURSIVE BodyOK(_)
BodyOK(b) ==
  IF Len(b) = 0 THEN TRUE
  ELSE IF b[1] = 46 \/ b[1] \notin Meta THEN
         IF Len(b) >= 2 /\ b[2] = 42 THEN BodyOK(SubSeq(b, 3, Len(b))) ELSE BodyOK(Tail(b))
  ELSE FALSE
ReInSubset(re) == /\ BodyOK(ReBody(re[2]))
                  /\ re[3] \in {"", "i"}

AtomMatches(a, c, ci) == a = 46 \/ (IF ci THEN Lower(a) = Lower(c) ELSE a = c)

\* does body b match a prefix of s ending exactly at the end (if toEnd) or anywhere?
RECURSIVE MatchHere(_, _, _, _)
MatchHere(b, s, toEnd, ci) ==
  IF Len(b) = 0 THEN (~toEnd) \/ Len(s) = 0
  ELSE IF Len(b) >= 2 /\ b[2] = 42 THEN
         \/ MatchHere(SubSeq(b, 3, Len(b)), s, toEnd, ci)
         \/ (Len(s) > 0 /\ AtomMatches(b[1], s[1], ci) /\ MatchHere(b, Tail(s), toEnd, ci))
  ELSE Len(s) > 0 /\ AtomMatches(b[1], s[1], ci) /\ MatchHere(Tail(b), Tail(s), toEnd, ci)

ReSearch(re, s) ==
  LET b == ReBody(re[2]) ci == re[3] = "i" toEnd == ReAnchEnd(re[2]) IN
  IF ReAnchStart(re[2]) THEN MatchHere(b, s, toEnd, ci)
  ELSE \E k \in 0..Len(s) : MatchHere(b, SubSeq(s, k + 1, Len(s)), toEnd, ci)

\* the subject must not contain whitespace or newlines: the statement does not say
\* how a subject is split or trimmed before matching
PlainSubject(s) == \A k \in 1..Len(s) : s[k] \notin {9, 10, 13, 32}

Match(s, re) == IF ReInSubset(re) /\ PlainSubject(s) THEN B(ReSearch(re, s)) ELSE SKIP

(***************************************************************************)
(* Containers.                                                             *)
(***************************************************************************)
Hashable(k) == Tag(k) \in {"I", "F", "S"}

\* keys are equal when type and value are equal; 1, 1.0 and "1" are three keys
HashGet(ps, k) == IF \E i \in 1..Len(ps) : ps[i][1] = k
                  THEN ps[CHOOSE i \in 1..Len(ps) : ps[i][1] = k][2]
                  ELSE N

\* later duplicates override earlier ones (used when building from a literal)
RECURSIVE HashPut(_, _, _)
HashPut(ps, k, w) ==
  IF Len(ps) = 0 THEN <<<<k, w>>>>
  ELSE IF ps[1][1] = k THEN <<<<k, w>>>> \o Tail(ps)
  ELSE <<ps[1]>> \o HashPut(Tail(ps), k, w)

\* substring test on code-point sequences
IsSubstr(a, b) == \E k \in 0..(Len(b) - Len(a)) : SubSeq(b, k + 1, k + Len(a)) = a

Scalar(v) == Tag(v) \in {"I", "F", "S", "B", "N"}

\* membership: an element equal in type and value; an integer against an equal
\* float (or the reverse) is unconstrained
MemberOf(x, es) ==
  IF ~Scalar(x) THEN SKIP
  ELSE IF \E i \in 1..Len(es) : es[i] = x THEN B(TRUE)
  ELSE IF IsNum(x) /\ \E i \in 1..Len(es) : IsNum(es[i]) /\ Tag(es[i]) # Tag(x) /\ NumCmpOK(x, es[i]) /\ NumEq(x, es[i]) THEN SKIP
  ELSE IF IsNum(x) /\ \E i \in 1..Len(es) : IsNum(es[i]) /\ ~NumCmpOK(x, es[i]) THEN SKIP
  ELSE IF \E i \in 1..Len(es) : ~Scalar(es[i]) /\ Inspect(es[i]) = Inspect(x) THEN SKIP
  ELSE B(FALSE)

RangeSeq(a, b) == [k \in 1..(b - a + 1) |-> I(a + k - 1)]

IndexOp(c, k) ==
  CASE IsArr(c)  -> IF ~IsInt(k) THEN ERR
                    ELSE IF k[2] >= 0 /\ k[2] < Len(c[2]) THEN c[2][k[2] + 1] ELSE N
    [] IsStr(c)  -> IF ~IsInt(k) THEN ERR
                    ELSE IF k[2] >= 0 /\ k[2] < Len(c[2]) THEN S(<<c[2][k[2] + 1]>>) ELSE N
    [] IsHash(c) -> IF Hashable(k) THEN HashGet(c[2], k) ELSE ERR
    [] OTHER     -> ERR

(***************************************************************************)
(* The binary operators.                                                   *)
(***************************************************************************)
ArithOps == {"+", "-", "*", "/", "%", "**"}
CmpOps   == {"<", "<=", ">", ">="}
EqOps    == {"==", "!="}
BinOps   == <<"+", "-", "*", "/", "%", "**", "<", "<=", ">", ">=", "==", "!=",
              "~=", "!~", "in", "&&", "||", "..", "[]">>

NumCmp(op, l, r) ==
  IF ~NumCmpOK(l, r) THEN SKIP
  ELSE CASE op = "<"  -> B(NumLess(l, r))
         [] op = "<=" -> B(~NumLess(r, l))
         [] op = ">"  -> B(NumLess(r, l))
         [] op = ">=" -> B(~NumLess(l, r))
         [] op = "==" -> B(NumEq(l, r))
         [] op = "!=" -> B(~NumEq(l, r))

StrCmp(op, a, b) ==
  CASE op = "<"  -> B(SeqLess(a, b))
    [] op = "<=" -> B(~SeqLess(b, a))
    [] op = ">"  -> B(SeqLess(b, a))
    [] op = ">=" -> B(~SeqLess(a, b))
    [] op = "==" -> B(a = b)
    [] op = "!=" -> B(a # b)

IsRoot(v) == Tag(v) = "Q"      \* an irrational float: the model does not compute with it

Bin(op, l, r) ==
  CASE op = "&&" -> B(Truthy(l) /\ Truthy(r))
    [] op = "||" -> B(Truthy(l) \/ Truthy(r))
    [] IsRoot(l) \/ IsRoot(r) -> SKIP
    [] op \in ArithOps ->
         IF IsNum(l) /\ IsNum(r) THEN Arith(op, l, r)
         ELSE IF op = "+" /\ IsStr(l) /\ IsStr(r) THEN S(l[2] \o r[2])
         ELSE IF IsBool(l) /\ IsBool(r) /\ op = "+" THEN SKIP   \* the definition is silent
         ELSE ERR
    [] op \in CmpOps ->
         IF IsNum(l) /\ IsNum(r) THEN NumCmp(op, l, r)
         ELSE IF IsStr(l) /\ IsStr(r) THEN StrCmp(op, l[2], r[2])
         ELSE IF IsBool(l) /\ IsBool(r) THEN SKIP               \* ordering of booleans: silent
         ELSE ERR
    [] op \in EqOps ->
         IF IsNum(l) /\ IsNum(r) THEN NumCmp(op, l, r)
         ELSE IF IsStr(l) /\ IsStr(r) THEN StrCmp(op, l[2], r[2])
         ELSE IF IsBool(l) /\ IsBool(r) THEN B(IF op = "==" THEN l[2] = r[2] ELSE l[2] # r[2])
         ELSE IF Tag(l) = Tag(r) THEN SKIP       \* null/array/hash/regexp like-with-like: silent
         ELSE ERR
    [] op = "~=" -> IF IsStr(l) /\ IsRe(r) THEN Match(l[2], r) ELSE ERR
    [] op = "!~" -> IF IsStr(l) /\ IsRe(r)
                    THEN (LET m == Match(l[2], r) IN IF IsSkip(m) THEN SKIP ELSE B(~m[2]))
                    ELSE ERR
    [] op = "in" -> IF IsArr(r) THEN MemberOf(l, r[2])
                    ELSE IF IsStr(l) /\ IsStr(r) THEN B(IsSubstr(l[2], r[2]))
                    ELSE ERR
    [] op = ".." -> IF IsInt(l) /\ IsInt(r)
                    THEN (IF l[2] <= r[2] THEN (IF r[2] - l[2] <= 50 THEN A(RangeSeq(l[2], r[2])) ELSE SKIP) ELSE SKIP)
                    ELSE ERR
    [] op = "[]" -> IndexOp(l, r)

(***************************************************************************)
(* The unary operators: "-" negation, "!" logical not, "sqrt" square root. *)
(***************************************************************************)
RECURSIVE ISqrt(_, _)
ISqrt(n, k) == IF k * k >= n THEN k ELSE ISqrt(n, k + 1)     \* least k with k*k >= n (small n only)

UnOps == <<"-", "!", "sqrt">>

Un(op, v) ==
  CASE op = "!" -> IF IsBool(v) THEN B(~v[2]) ELSE IF IsNull(v) THEN B(TRUE) ELSE B(FALSE)
    [] op = "-" -> IF IsInt(v) THEN I(-v[2]) ELSE IF IsFlt(v) THEN <<"F", -v[2], v[3]>>
                   ELSE IF Tag(v) = "Q" THEN SKIP ELSE ERR
    [] op = "sqrt" ->
         IF Tag(v) = "Q" THEN SKIP
         ELSE IF ~IsNum(v) THEN ERR
         ELSE IF Num(v) < 0 THEN SKIP                       \* not a number: silent
         ELSE IF Den(v) = 1 /\ Num(v) <= 70000 THEN
                (LET k == ISqrt(Num(v), 0) IN IF k * k = Num(v) THEN F(k, 1) ELSE <<"Q", Num(v), 1>>)
         ELSE IF Den(v) = 4 /\ Num(v) <= 70000 THEN
                (LET k == ISqrt(Num(v), 0) IN IF k * k = Num(v) THEN F(k, 2) ELSE <<"Q", Num(v), 4>>)
         ELSE SKIP

(***************************************************************************)
(* Laws the operator tables must satisfy (checked by TLC over the          *)
(* enumerated domain; they protect the oracle from slips).                 *)
(***************************************************************************)
Defined(x) == ~IsErr(x) /\ ~IsSkip(x)

LawTotal(op, l, r)   == LET x == Bin(op, l, r) IN IsErr(x) \/ IsSkip(x) \/ IsValue(x)
LawLtGt(l, r)        == Bin("<", l, r) = Bin(">", r, l)
LawLeNotGt(l, r)     == LET a == Bin("<=", l, r) b == Bin(">", l, r) IN
                        (Defined(a) /\ Defined(b)) => a[2] = ~b[2]
LawNeNotEq(l, r)     == LET a == Bin("!=", l, r) b == Bin("==", l, r) IN
                        (Defined(a) /\ Defined(b)) => a[2] = ~b[2]
LawEqSym(l, r)       == Bin("==", l, r) = Bin("==", r, l)
LawAndOr(l, r)       == /\ Bin("&&", l, r) = B(Truthy(l) /\ Truthy(r))
                        /\ Bin("||", l, r) = B(Truthy(l) \/ Truthy(r))
LawErrTags(op, l, r) == IsErr(Bin(op, l, r)) => ~(op \in {"&&", "||"})
LawMatchNeg(l, r)    == LET a == Bin("~=", l, r) b == Bin("!~", l, r) IN
                        (Defined(a) /\ Defined(b)) => a[2] = ~b[2]
\* an integer and the float of the same value compare alike against anything numeric
LawIntFloat(op, n, r) == (IsInt(n) /\ IsNum(r) /\ op \in (CmpOps \cup EqOps)) =>
                          LET a == Bin(op, n, r) b == Bin(op, <<"F", n[2], 1>>, r) IN
                          (Defined(a) /\ Defined(b)) => a = b

Laws(op, l, r) == /\ LawTotal(op, l, r) /\ LawLtGt(l, r) /\ LawLeNotGt(l, r)
                  /\ LawNeNotEq(l, r) /\ LawEqSym(l, r) /\ LawAndOr(l, r)
                  /\ LawErrTags(op, l, r) /\ LawMatchNeg(l, r) /\ LawIntFloat(op, l, r)
=============================================================================
