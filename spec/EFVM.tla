-------------------------------- MODULE EFVM --------------------------------
(***************************************************************************)
(* The virtual machine as an executable specification: it runs the machine *)
(* code EFCompiler / EFOptimizer produce, instruction by instruction, on   *)
(* values of EFValues, with the environment of EFSemantics (globals, scope *)
(* stack, host-call log).  Structured like vm/vm.go: one case per opcode,  *)
(* a user-function call runs the callee's body with an operand stack of    *)
(* its own inside a new scope, foreach keeps its iterator on the operand   *)
(* stack and drops what the body left above it, and when a body ends -     *)
(* however it ends - the scopes it opened are closed.                      *)
(*                                                                         *)
(* It exists to let TLC check, inside the specification,                   *)
(*      VM(Compile(p))            agrees with   EFSemantics(p)             *)
(*      VM(Optimize(Compile(p)))  agrees with   VM(Compile(p))             *)
(* for every enumerated program and input; EFCompiler and EFOptimizer are  *)
(* themselves bound to the real compiler and optimizer byte for byte.      *)
(***************************************************************************)
EXTENDS EFOptimizer

\* operand-stack entries: values of EFValues, names <<"NAME", string>> (pool entries used as
\* names), iterators <<"IT", pairs, next position>>
NameOf(c) == <<"NAME", c[2]>>
ConstValue(c) == CASE c[1] = "S" -> NameOf(c) [] c[1] = "SV" -> S(c[2]) [] c[1] = "I" -> I(c[2])
                   [] c[1] = "F" -> <<"F", c[2], c[3]>> [] c[1] = "R" -> R(c[2], c[3])

Top(stk, k) == stk[Len(stk) - k]                 \* k = 0: the top
Cut(stk, n) == SubSeq(stk, 1, Len(stk) - n)

\* the machine state: the EFSemantics state s plus the operand stack and the loop bases
\* result of running a body: [s, out] where out is the returned value, <<"END">> when the
\* body ran off its end, or <<"STOP">> when s.st says why it stopped
END == <<"END">>
STOP == <<"STOP">>

VMFail(s) == [s EXCEPT !.st = "err"]
VMSkip(s) == [s EXCEPT !.st = IF s.st = "ok" THEN "skip" ELSE s.st]

FuncBody(cc, name) == cc.funcs[CHOOSE i \in 1..Len(cc.funcs) : cc.funcs[i][1] = name]
HasFunc(cc, name) == \E i \in 1..Len(cc.funcs) : cc.funcs[i][1] = name

\* pairs taken from the last to the first, each stored under its key (a later store replaces an earlier one)
RECURSIVE FirstWins(_, _, _)
FirstWins(ps, i, acc) == IF i = 0 THEN acc ELSE FirstWins(ps, i - 1, HashPut(acc, ps[i][1], ps[i][2]))

RECURSIVE Step(_, _, _, _, _, _, _), RunBody(_, _, _, _)

\* run body `code` of program cc from offset ip with operand stack stk and loop bases in state s
Step(cc, code, ip, stk, loops, s, ctx) ==
  IF s.st # "ok" THEN [s |-> s, out |-> STOP]
  ELSE IF ip >= Len(code) THEN [s |-> s, out |-> END]
  ELSE IF s.fuel = 0 THEN [s |-> [s EXCEPT !.st = "div"], out |-> STOP]
  ELSE
  LET op == ByteAt(code, ip)
      arg == IF OpLen(op) = 3 THEN ArgAt(code, ip) ELSE 0
      nxt == ip + OpLen(op)
      s0 == [s EXCEPT !.fuel = s.fuel - 1, !.ips = Append(s.ips, <<ip, op>>)]
      n == Len(stk)
      Go(stk2, s2) == Step(cc, code, nxt, stk2, loops, s2, ctx)
      Under == [s |-> VMFail(s0), out |-> STOP]                 \* stack underflow: an internal error
      \* push the outcome of an operator
      Push(x, rest) == IF IsErr(x) THEN [s |-> VMFail(s0), out |-> STOP]
                       ELSE IF IsSkip(x) THEN [s |-> VMSkip(s0), out |-> STOP]
                       ELSE Go(Append(rest, x), s0)
  IN
  CASE op \in {OpNop, OpPlaceholder} -> Go(stk, s0)
    [] op = OpPush -> Go(Append(stk, I(arg)), s0)
    [] op = OpConstant -> IF arg >= Len(cc.consts) THEN Under ELSE Go(Append(stk, ConstValue(cc.consts[arg + 1])), s0)
    [] op = OpLookup -> Go(Append(stk, LookupVar(s0, ctx, cc.consts[arg + 1][2])), s0)
    [] op = OpTrue -> Go(Append(stk, B(TRUE)), s0)
    [] op = OpFalse -> Go(Append(stk, B(FALSE)), s0)
    [] op = OpVoid -> Go(Append(stk, V), s0)
    [] op = OpSet -> IF n < 2 THEN Under
                     ELSE IF Top(stk, 1) = V THEN [s |-> VMSkip(s0), out |-> STOP]
                     ELSE Go(Cut(stk, 2), Assign(s0, Top(stk, 0)[2], Top(stk, 1)))
    [] op = OpLocal -> IF n < 1 THEN Under
                       ELSE IF Len(s0.sc) = 0 THEN [s |-> VMSkip(s0), out |-> STOP]
                       ELSE Go(Cut(stk, 1), Declare(s0, Top(stk, 0)[2], N))
    [] op \in {OpInc, OpDec} ->
         IF n < 1 THEN Under
         ELSE LET name == cc.consts[arg + 1][2]  cur == LookupVar(s0, ctx, name) IN
              IF ~IsNum(cur) THEN [s |-> VMFail(s0), out |-> STOP]
              ELSE LET x == Bin(IF op = OpInc THEN "+" ELSE "-", cur, I(1)) IN
                   IF IsSkip(x) THEN [s |-> VMSkip(s0), out |-> STOP] ELSE Go(Cut(stk, 1), Assign(s0, name, x))
    [] op \in BinaryOps /\ op # OpCase ->
         IF n < 2 THEN Under
         ELSE IF Top(stk, 0) = V \/ Top(stk, 1) = V THEN [s |-> VMSkip(s0), out |-> STOP]
         ELSE Push(Bin(CASE op = OpAdd -> "+" [] op = OpSub -> "-" [] op = OpMul -> "*" [] op = OpDiv -> "/" [] op = OpMod -> "%"
                         [] op = OpPower -> "**" [] op = OpLess -> "<" [] op = OpLessEqual -> "<=" [] op = OpGreater -> ">"
                         [] op = OpGreaterEqual -> ">=" [] op = OpEqual -> "==" [] op = OpNotEqual -> "!=" [] op = OpMatches -> "~="
                         [] op = OpNotMatches -> "!~" [] op = OpAnd -> "&&" [] op = OpOr -> "||" [] op = OpArrayIn -> "in"
                         [] op = OpIndex -> "[]" [] op = OpRange -> "..", Top(stk, 1), Top(stk, 0)), Cut(stk, 2))
    [] op = OpCase ->
         IF n < 2 THEN Under
         ELSE LET m == CaseMatch(Top(stk, 1), Top(stk, 0)) IN Push(m, Cut(stk, 2))
    [] op \in UnaryOps ->
         IF n < 1 THEN Under
         ELSE IF Top(stk, 0) = V THEN [s |-> VMSkip(s0), out |-> STOP]
         ELSE Push(Un(CASE op = OpMinus -> "-" [] op = OpBang -> "!" [] op = OpSquareRoot -> "sqrt", Top(stk, 0)), Cut(stk, 1))
    [] op = OpArray -> IF n < arg THEN Under
                       ELSE IF \E i \in 1..arg : stk[n - arg + i] = V THEN [s |-> VMSkip(s0), out |-> STOP]
                       ELSE Go(Append(Cut(stk, arg), A(SubSeq(stk, n - arg + 1, n))), s0)
    [] op = OpHash ->
         \* arg operands: key, value, key, value ... in the order they were emitted; the machine takes them off
         \* from the top and stores each under its key, so of two pairs with one key the one emitted FIRST stays
         IF n < arg THEN Under
         ELSE LET np == arg \div 2
                  key(i) == stk[n - arg + 2 * i - 1]
                  val(i) == stk[n - arg + 2 * i] IN
              IF \E i \in 1..np : key(i) = V \/ val(i) = V THEN [s |-> VMSkip(s0), out |-> STOP]
              ELSE IF \E i \in 1..np : ~Hashable(key(i)) THEN [s |-> VMFail(s0), out |-> STOP]
              ELSE Go(Append(Cut(stk, arg), H(FirstWins([i \in 1..np |-> <<key(i), val(i)>>], np, <<>>))), s0)
    [] op = OpJump -> Step(cc, code, arg, stk, loops, s0, ctx)
    [] op = OpJumpIfFalse ->
         IF n < 1 THEN Under
         ELSE IF Top(stk, 0) = V THEN [s |-> VMSkip(s0), out |-> STOP]
         ELSE Step(cc, code, IF Truthy(Top(stk, 0)) THEN nxt ELSE arg, Cut(stk, 1), loops, s0, ctx)
    [] op = OpReturn -> IF n < 1 THEN Under ELSE [s |-> s0, out |-> Top(stk, 0)]
    [] op = OpIterationReset ->
         IF n < 1 THEN Under
         ELSE LET pairs == IterPairs(Top(stk, 0))
                  s1 == [s0 EXCEPT !.sc = Append(s0.sc, <<>>)] IN
              IF Top(stk, 0) = V THEN [s |-> VMSkip(s0), out |-> STOP]
              ELSE IF IsErr(pairs) THEN [s |-> VMFail(s1), out |-> STOP]
              ELSE IF IsSkip(pairs) THEN [s |-> VMSkip(s1), out |-> STOP]
              ELSE Step(cc, code, nxt, Append(Cut(stk, 1), <<"IT", pairs[2], 1>>), Append(loops, n), s1, ctx)
    [] op = OpIterationNext ->
         IF n < 3 \/ Len(loops) = 0 THEN Under
         ELSE LET base == loops[Len(loops)]                       \* height with the iterator on top
                  var == Top(stk, 0)[2]  idx == Top(stk, 1)[2]
                  it == stk[base]
                  below == SubSeq(stk, 1, base - 1) IN
              IF n - 2 < base THEN Under
              ELSE IF it[3] <= Len(it[2]) THEN
                   LET s1 == Declare(s0, var, it[2][it[3]][2])
                       s2 == IF idx = "" THEN s1 ELSE Declare(s1, idx, it[2][it[3]][1])
                   IN Step(cc, code, nxt, below \o <<<<"IT", it[2], it[3] + 1>>, B(TRUE)>>, loops, s2, ctx)
              ELSE Step(cc, code, nxt, Append(below, B(FALSE)), Cut(loops, 1), [s0 EXCEPT !.sc = Cut(s0.sc, 1)], ctx)
    [] op = OpCall ->
         IF n < arg + 1 THEN Under
         ELSE LET name == Top(stk, 0)[2]
                  args == SubSeq(stk, n - arg, n - 1)
                  rest == Cut(stk, arg + 1)
                  \* a value comes back (pushed), or nothing (void)
                  Back(v, s2) == IF v = V THEN Go(rest, s2) ELSE Go(Append(rest, v), s2) IN
              IF \E i \in 1..arg : args[i] = V THEN [s |-> VMSkip(s0), out |-> STOP]
              ELSE IF IsBuiltin(name) THEN
                   (LET x == Builtin(name, args) IN
                    IF x = PANIC THEN [s |-> VMFail(s0), out |-> STOP]
                    ELSE IF IsSkip(x) THEN [s |-> VMSkip(s0), out |-> STOP]
                    ELSE Back(x, s0))
              ELSE IF Has(ctx.host, name) THEN
                   (LET kind == Get(ctx.host, name)
                        s1 == [s0 EXCEPT !.calls = Append(s0.calls, <<name, args>>)] IN
                    Back(IF kind[1] = "log" THEN V ELSE IF kind[1] = "same" THEN (IF arg > 0 THEN args[1] ELSE N)
                         ELSE IF kind[1] = "pack" THEN A(args)
                         ELSE IF kind[1] = "count" THEN I(Cardinality({i \in 1..Len(s1.calls) : s1.calls[i][1] = name}))
                         ELSE kind[2], s1))
              ELSE IF HasFunc(cc, name) THEN
                   (LET f == FuncBody(cc, name)  params == f[2]  depth == Len(s0.sc) IN
                    IF Len(params) # arg THEN [s |-> VMFail(s0), out |-> STOP]
                    ELSE LET s1 == BindAll([s0 EXCEPT !.sc = Append(s0.sc, <<>>)], [i \in 1..arg |-> <<params[i], args[i]>>], 1)
                             r == RunBody(cc, f[3], s1, ctx)
                             s2 == [r.s EXCEPT !.sc = SubSeq(r.s.sc, 1, depth)] IN       \* the call closes what it opened
                         IF r.out = STOP THEN [s |-> s2, out |-> STOP]
                         ELSE Step(cc, code, nxt, IF r.out = V \/ r.out = END THEN rest ELSE Append(rest, r.out), loops, s2, ctx))
              ELSE [s |-> VMFail(s0), out |-> STOP]
    [] OTHER -> [s |-> VMFail(s0), out |-> STOP]

\* a body from its start with an empty operand stack; the scopes it leaves open are closed
RunBody(cc, code, s, ctx) ==
  LET depth == Len(s.sc)
      r == Step(cc, code, 0, <<>>, <<>>, s, ctx) IN
  [s |-> [r.s EXCEPT !.sc = SubSeq(r.s.sc, 1, IF Len(r.s.sc) < depth THEN Len(r.s.sc) ELSE depth)], out |-> r.out]

\* one run of a compiled program: the same observable record as EFSemantics!RunProgram
RunCompiled(cc, g, obj, host, fuel) ==
  LET ctx == [funcs |-> <<>>, obj |-> obj, host |-> host, nsre |-> "skip"]
      r == RunBody(cc, cc.code, [g |-> g, sc |-> <<>>, calls |-> <<>>, ret |-> NONE, st |-> "ok", fuel |-> fuel, ips |-> <<>>], ctx)
      s == r.s
  IN [out |-> CASE s.st = "err" -> ERR
                [] s.st = "skip" -> SKIP
                [] s.st = "div" -> <<"DIVERGE">>
                [] OTHER -> (IF r.out = END \/ r.out = V THEN N ELSE r.out),
      calls |-> s.calls, g |-> s.g, st |-> s.st,
      ips |-> s.ips]                    \* <<offset, opcode>> of every instruction executed, in order

\* Hashes are compared as what they are - finite maps - not as the pair lists which represent them: the
\* pairs are put in the order of the printed keys (where two keys print alike the order is unspecified, and
\* nothing is demanded of a value which holds such a hash).
RECURSIVE Canon(_), CanonSeq(_, _), Unordered(_)
Unordered(v) == CASE IsHash(v) -> ~HashOrderDefined(v[2]) \/ \E i \in 1..Len(v[2]) : Unordered(v[2][i][2])
                  [] IsArr(v) -> \E i \in 1..Len(v[2]) : Unordered(v[2][i])
                  [] OTHER -> FALSE
Canon(v) == CASE IsHash(v) -> LET ks == HashSorted(v[2]) IN H([i \in 1..Len(ks) |-> <<ks[i], Canon(HashGet(v[2], ks[i]))>>])
              [] IsArr(v) -> A(CanonSeq(v[2], 1))
              [] OTHER -> v
CanonSeq(vs, i) == IF i > Len(vs) THEN <<>> ELSE <<Canon(vs[i])>> \o CanonSeq(vs, i + 1)
SameValue(v, w) == Unordered(v) \/ Unordered(w) \/ Canon(v) = Canon(w)
SameVars(g, h) == /\ Len(g) = Len(h)
                  /\ \A i \in 1..Len(g) : Has(h, g[i][1]) /\ SameValue(g[i][2], Get(h, g[i][1]))
SameCalls(c, d) == /\ Len(c) = Len(d)
                   /\ \A i \in 1..Len(c) : c[i][1] = d[i][1] /\ Len(c[i][2]) = Len(d[i][2])
                                              /\ \A j \in 1..Len(c[i][2]) : SameValue(c[i][2][j], d[i][2][j])
SameOut(x, y) == IF Tag(x) \in {"ERR", "SKIP", "DIVERGE"} \/ Tag(y) \in {"ERR", "SKIP", "DIVERGE"} THEN x = y ELSE SameValue(x, y)

\* the observable record b agrees with the reference record a: nothing is demanded where either is
\* unconstrained or where the reference ran out of fuel (b running out of fuel when the reference did
\* not is a disagreement); the variables left are compared too - after a failed run they are what
\* the run had assigned up to the failure
Agree(a, b) ==
  \/ IsSkip(a.out) \/ IsSkip(b.out)
  \/ a.out[1] = "DIVERGE"
  \/ /\ SameOut(a.out, b.out)
     /\ SameCalls(a.calls, b.calls)
     /\ SameVars(a.g, b.g)
=============================================================================
