------------------------------ MODULE MC_Match ------------------------------
(***************************************************************************)
(* C01, the regexp operators on subjects with white space and line breaks. *)
(* The statement says "~= and !~ test a string against a regexp" and not   *)
(* how a subject with several lines or surrounding blanks is treated; two  *)
(* definitions are compatible with it:                                     *)
(*   lines   the subject is split into lines, each line is stripped of     *)
(*           surrounding white space, and the test holds when some line    *)
(*           matches (what the documentation's examples over multi-line    *)
(*           fields rely on);                                              *)
(*   plain   the subject is matched as it is (^ and $ at the ends of the   *)
(*           text, "." does not match a line break).                       *)
(* A row carries the verdict under each.  The implementation may follow    *)
(* either - but ONE of them, for every subject: the harness records which  *)
(* definition each informative row (the two verdicts differ) agrees with,  *)
(* and an implementation agreeing with "lines" on some subjects and with   *)
(* "plain" on others follows no definition at all.                         *)
(***************************************************************************)
EXTENDS EFValues, Json

VARIABLE row
vars == <<row>>

White == {9, 10, 11, 12, 13, 32}

RECURSIVE TrimL(_), TrimR(_), SplitLines(_, _)
TrimL(s) == IF Len(s) > 0 /\ s[1] \in White THEN TrimL(Tail(s)) ELSE s
TrimR(s) == IF Len(s) > 0 /\ s[Len(s)] \in White THEN TrimR(SubSeq(s, 1, Len(s) - 1)) ELSE s
Trim(s) == TrimR(TrimL(s))
\* the lines of s (split at 10), cur being the line collected so far
SplitLines(s, cur) == IF Len(s) = 0 THEN <<cur>>
                      ELSE IF s[1] = 10 THEN <<cur>> \o SplitLines(Tail(s), <<>>)
                      ELSE SplitLines(Tail(s), Append(cur, s[1]))

\* "plain": as ReSearch, except that "." does not match a line break
RECURSIVE PlainHere(_, _, _, _)
PlainAtom(a, c, ci) == (a = 46 /\ c # 10) \/ (a # 46 /\ (IF ci THEN Lower(a) = Lower(c) ELSE a = c))
PlainHere(b, s, toEnd, ci) ==
  IF Len(b) = 0 THEN (~toEnd) \/ Len(s) = 0
  ELSE IF Len(b) >= 2 /\ b[2] = 42 THEN
         \/ PlainHere(SubSeq(b, 3, Len(b)), s, toEnd, ci)
         \/ (Len(s) > 0 /\ PlainAtom(b[1], s[1], ci) /\ PlainHere(b, Tail(s), toEnd, ci))
  ELSE Len(s) > 0 /\ PlainAtom(b[1], s[1], ci) /\ PlainHere(Tail(b), Tail(s), toEnd, ci)
PlainSearch(re, s) ==
  LET b == ReBody(re[2]) ci == re[3] = "i" toEnd == ReAnchEnd(re[2]) IN
  IF ReAnchStart(re[2]) THEN PlainHere(b, s, toEnd, ci)
  ELSE \E k \in 0..Len(s) : PlainHere(b, SubSeq(s, k + 1, Len(s)), toEnd, ci)

LinesSearch(re, s) == LET ls == SplitLines(s, <<>>) IN \E i \in 1..Len(ls) : ReSearch(re, Trim(ls[i]))

\* a = 97  b = 98  x = 120  y = 121
Subjects == << <<97, 98>>, <<32, 97, 98>>, <<97, 98, 32>>, <<32, 97, 98, 32>>, <<9, 97, 98>>, <<97, 98, 13>>,
               <<120, 10, 97, 98>>, <<97, 98, 10, 120>>, <<120, 10, 32, 97, 98, 32, 10, 121>>, <<97, 10, 98>>,
               <<97, 32, 98>>, <<>>, <<32>>, <<10>>, <<120, 32, 97, 98>>, <<97, 98, 10>>, <<10, 97, 98>> >>
\* ^ab  ab$  ^ab$  a.*b  ^a.b  ab  ^$  " ab"  "^ "  "ab $"  x.*y
Patterns == << <<94, 97, 98>>, <<97, 98, 36>>, <<94, 97, 98, 36>>, <<97, 46, 42, 98>>, <<94, 97, 46, 98>>, <<97, 98>>, <<94, 36>>,
               <<32, 97, 98>>, <<94, 32>>, <<97, 98, 32, 36>>, <<120, 46, 42, 121>> >>

L(v) == <<"lit", v>>
Init == \E s \in 1..Len(Subjects) : row = [k |-> "m0", s |-> s, done |-> FALSE]
Next ==
  /\ ~row.done
  /\ \E p \in 1..Len(Patterns), neg \in BOOLEAN, prov \in {"ll", "fl", "vl"} :
       LET subj == Subjects[row.s]
           re == R(Patterns[p], "")
           la == LinesSearch(re, subj)
           pl == PlainSearch(re, subj) IN
       row' = [k |-> "match", prov |-> prov, e |-> <<"bin", IF neg THEN "!~" ELSE "~=", L(S(subj)), L(re)>>,
               lines |-> B(IF neg THEN ~la ELSE la), plain |-> B(IF neg THEN ~pl ELSE pl), done |-> TRUE]

Spec == Init /\ [][Next]_vars

\* the two definitions are the same thing on subjects without white space (where EFValues!Match speaks)
Compatible == row.done =>
  LET subj == row.e[3][2][2] IN PlainSubject(subj) => (row.lines = row.plain /\ row.lines = (IF row.e[2] = "!~" THEN B(~ReSearch(row.e[4][2], subj)) ELSE B(ReSearch(row.e[4][2], subj))))

Export == row.done => PrintT(<<"ROW", ToJson(row)>>)
=============================================================================
