----------------------------- MODULE Trace_Conc -----------------------------
(***************************************************************************)
(* C11, code -> spec: EFConc over the events of ONE real execution         *)
(* (conc.ndjson), recorded per goroutine through the verif hooks - the     *)
(* evaluator lock hook, the regexp-cache hook and the step hook.  TLC      *)
(* explores ALL interleavings consistent with program order and the locks, *)
(* not only the one that happened, and checks NoDataRace, NoLostUpdate,    *)
(* MutualExclusion, Balanced, NoDeadlock and that every goroutine follows  *)
(* the lock discipline of the design (LockDiscipline).                     *)
(***************************************************************************)
EXTENDS EFConc, Json, TLC

\* (the configuration substitutes the constant: CONSTANT Events <- Recorded)
Recorded == ndJsonDeserialize("conc.ndjson")
=============================================================================
