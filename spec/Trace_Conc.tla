----------------------------- MODULE Trace_Conc -----------------------------
(***************************************************************************)
(* C11: evaluators used from many goroutines.                              *)
(*                                                                         *)
(* Input (conc.ndjson): the synchronisation-relevant events of ONE real    *)
(* execution, per goroutine, in program order, recorded through the verif  *)
(* hooks:                                                                  *)
(*   [g, e |-> "lock",   x |-> evaluator]   the evaluator's mutex acquired *)
(*   [g, e |-> "unlock", x |-> evaluator]   ... about to be released       *)
(*   [g, e |-> "rd" / "wr", x |-> location] the machine reads / writes a   *)
(*        location of an evaluator: "<evaluator>.n" for the persistent     *)
(*        counter of the script, "<evaluator>.vm" for the machine's own    *)
(*        state (stack, field cache), touched by every instruction         *)
(*   [g, e |-> "clock" / "cunlock"]         the regexp-cache lock          *)
(*   [g, e |-> "crd" / "cwr", x |-> "cache"] a read / write of the shared  *)
(*        regexp cache                                                     *)
(* The specification keeps each goroutine's program order and the lock     *)
(* semantics and lets TLC explore ALL interleavings consistent with them - *)
(* not only the one that happened.  It checks                              *)
(*   NoDataRace     no two goroutines are both about to access the same    *)
(*                  location, one of them writing, with no common lock     *)
(*   NoLostUpdate   the counter of every evaluator ends at the number of   *)
(*                  increments (each run reads it and writes back + 1)     *)
(*   MutualExclusion a mutex has at most one holder (by construction of    *)
(*                  the lock actions; kept as a guard)                     *)
(***************************************************************************)
EXTENDS Integers, Sequences, FiniteSets, Json, TLC

Events == ndJsonDeserialize("conc.ndjson")
Gs == {Events[i].g : i \in 1..Len(Events)}

\* the events of goroutine g, in order
RECURSIVE Pick(_, _)
Pick(g, i) == IF i > Len(Events) THEN <<>>
              ELSE IF Events[i].g = g THEN <<Events[i]>> \o Pick(g, i + 1) ELSE Pick(g, i + 1)
Prog == [g \in Gs |-> Pick(g, 1)]

Locs == {Events[i].x : i \in {j \in 1..Len(Events) : Events[j].e \in {"rd", "wr", "crd", "cwr"}}}
Counters == {l \in Locs : \E i \in 1..Len(Events) : Events[i].x = l /\ Events[i].e = "wr" /\ Events[i].c}

VARIABLES pc,      \* pc[g]: index of the next event of g
          held,    \* held[g]: set of locks g holds
          mem,     \* mem[l]: value of counter location l
          reg,     \* reg[g]: the value g last read from a counter
          writes   \* writes[l]: increments performed on l
vars == <<pc, held, mem, reg, writes>>

Init == /\ pc = [g \in Gs |-> 1]
        /\ held = [g \in Gs |-> {}]
        /\ mem = [l \in Counters |-> 0]
        /\ reg = [g \in Gs |-> 0]
        /\ writes = [l \in Counters |-> 0]

Done(g) == pc[g] > Len(Prog[g])
Nxt(g) == Prog[g][pc[g]]
LockName(ev) == IF ev.e \in {"lock", "unlock"} THEN ev.x ELSE "cache-lock"
IsAcquire(ev) == ev.e \in {"lock", "clock"}
IsRelease(ev) == ev.e \in {"unlock", "cunlock"}
IsAccess(ev) == ev.e \in {"rd", "wr", "crd", "cwr"}
IsWrite(ev) == ev.e \in {"wr", "cwr"}

Free(l) == \A h \in Gs : l \notin held[h]

Step(g) ==
  /\ ~Done(g)
  /\ LET ev == Nxt(g) IN
     /\ (IsAcquire(ev) => Free(LockName(ev)))
     /\ pc' = [pc EXCEPT ![g] = @ + 1]
     /\ held' = [held EXCEPT ![g] = IF IsAcquire(ev) THEN @ \cup {LockName(ev)}
                                    ELSE IF IsRelease(ev) THEN @ \ {LockName(ev)} ELSE @]
     /\ IF ev.e = "rd" /\ ev.x \in Counters /\ ev.c
        THEN reg' = [reg EXCEPT ![g] = mem[ev.x]] /\ UNCHANGED <<mem, writes>>
        ELSE IF ev.e = "wr" /\ ev.x \in Counters /\ ev.c
        THEN /\ mem' = [mem EXCEPT ![ev.x] = reg[g] + 1]
             /\ writes' = [writes EXCEPT ![ev.x] = @ + 1]
             /\ UNCHANGED reg
        ELSE UNCHANGED <<mem, reg, writes>>

Next == \E g \in Gs : Step(g)

Spec == Init /\ [][Next]_vars

\* two goroutines both about to access one location, at least one writing, no lock in common
Race(g, h) ==
  /\ g # h /\ ~Done(g) /\ ~Done(h)
  /\ IsAccess(Nxt(g)) /\ IsAccess(Nxt(h))
  /\ Nxt(g).x = Nxt(h).x
  /\ (IsWrite(Nxt(g)) \/ IsWrite(Nxt(h)))
  /\ held[g] \cap held[h] = {}

NoDataRace == \A g \in Gs, h \in Gs : ~Race(g, h)

NoLostUpdate == (\A g \in Gs : Done(g)) => \A l \in Counters : mem[l] = writes[l]

MutualExclusion == \A g \in Gs, h \in Gs : g # h => held[g] \cap held[h] = {}

\* the recorded execution itself released every lock it took
Balanced == (\A g \in Gs : Done(g)) => \A g \in Gs : held[g] = {}
=============================================================================
