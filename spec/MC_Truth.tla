------------------------------ MODULE MC_Truth ------------------------------
(***************************************************************************)
(* C05: one notion of truth.  Every value of the corpus, of every          *)
(* provenance (literal, variable, object field, fresh host-function        *)
(* result, the engine's own singleton returned by a host function, result  *)
(* of a built-in), in every truth-consuming position (if, while, ternary,  *)
(* either side of && and ||, operand of !, the verdict of Run), and all    *)
(* ordered pairs of the reduced set under && and || with host-function     *)
(* provenance.  EFSemantics/Truthy is the oracle.                          *)
(***************************************************************************)
EXTENDS EFCorpus, Json

CONSTANT Tier,
         Seed      \* (not used by this corpus: nothing in it is sampled)

VARIABLE row
vars == <<row>>

Fuel == 20

Positions == <<"if", "while", "tern", "not", "andl", "andr", "orl", "orr", "run", "nottwice", "ifnot", "ternnot", "whilenot", "notor", "ifnottwice", "whilenottwice", "ternnottwice">>
Provs     == <<"lit", "var", "fld", "host", "single">>

\* the expression standing for value v with provenance p
XExpr(p) == CASE p = "lit" -> <<"LIT">>            \* replaced below
              [] p = "var" -> Ref("v1")
              [] p = "fld" -> Ref("F1")
              [] p = "host" -> CallE("h", <<>>)
              [] p = "single" -> CallE("h", <<>>)

ProgAt(pos, x) ==
  CASE pos = "if"    -> <<If(x, <<Ret(LitI(1))>>), Ret(LitI(0))>>
    [] pos = "while" -> <<While(x, <<Ret(LitI(1))>>), Ret(LitI(0))>>
    [] pos = "tern"  -> <<Ret(<<"tern", x, LitI(1), LitI(0)>>)>>
    [] pos = "not"   -> <<Ret(<<"un", "!", x>>)>>
    [] pos = "nottwice" -> <<Ret(<<"un", "!", <<"un", "!", x>>>>)>>
    [] pos = "ifnot" -> <<If(<<"un", "!", x>>, <<Ret(LitI(1))>>), Ret(LitI(0))>>
    [] pos = "ternnot" -> <<Ret(<<"tern", <<"un", "!", x>>, LitI(1), LitI(0)>>)>>
    [] pos = "whilenot" -> <<While(<<"un", "!", x>>, <<Ret(LitI(1))>>), Ret(LitI(0))>>
    [] pos = "notor" -> <<Ret(BinE("||", <<"un", "!", x>>, LitB(FALSE)))>>
    [] pos = "ifnottwice" -> <<If(<<"un", "!", <<"un", "!", x>>>>, <<Ret(LitI(1))>>), Ret(LitI(0))>>
    [] pos = "whilenottwice" -> <<While(<<"un", "!", <<"un", "!", x>>>>, <<Ret(LitI(1))>>), Ret(LitI(0))>>
    [] pos = "ternnottwice" -> <<Ret(<<"tern", <<"un", "!", <<"un", "!", x>>>>, LitI(1), LitI(0)>>)>>
    [] pos = "andl"  -> <<Ret(BinE("&&", x, LitB(TRUE)))>>
    [] pos = "andr"  -> <<Ret(BinE("&&", LitB(TRUE), x))>>
    [] pos = "orl"   -> <<Ret(BinE("||", x, LitB(FALSE)))>>
    [] pos = "orr"   -> <<Ret(BinE("||", LitB(FALSE), x))>>
    [] pos = "run"   -> <<Ret(x)>>

\* is the provenance available for the value?  (fields: what a JSON-shaped map can hold;
\* the engine only has singletons for true, false and null)
ProvOK(p, v) ==
  CASE p = "fld" -> Tag(v) \in {"I", "F", "S", "B", "N"}
                    \/ (IsArr(v) /\ \A i \in 1..Len(v[2]) : Tag(v[2][i]) \in {"I", "F", "S", "B"})
                    \/ (IsHash(v) /\ \A i \in 1..Len(v[2]) : IsStr(v[2][i][1]) /\ Tag(v[2][i][2]) \in {"I", "F", "S", "B"})
    [] p = "single" -> Tag(v) \in {"B", "N"}
    [] p = "lit" -> ~(IsRe(v) /\ Len(v[2]) = 0)          \* "//" starts a comment: no spelling
    [] OTHER -> TRUE

RowFor(pos, p, v) ==
  LET x == IF p = "lit" THEN <<"lit", v>> ELSE XExpr(p)
      prog == ProgAt(pos, x)
      host == IF p \in {"host", "single"} THEN <<<<"h", <<"val", v>>>>>> ELSE <<>>
      g0   == IF p = "var" THEN <<<<"v1", v>>>> ELSE <<>>
      obj  == IF p = "fld" THEN <<<<"F1", v>>>> ELSE <<>>
      r    == RunProgram(prog, g0, obj, host, Fuel)
      out  == IF pos = "run" /\ Defined(r.out) THEN B(Truthy(r.out)) ELSE r.out
  IN [k |-> "truth", pos |-> pos, prov |-> p, v |-> v, prog |-> prog,
      vars |-> g0,
      fns |-> IF p = "host" THEN <<<<"h", <<"val", v>>>>>> ELSE IF p = "single" THEN <<<<"h", <<"single", v>>>>>> ELSE <<>>,
      runs |-> <<[obj |-> obj, act |-> IF pos = "run" THEN "run" ELSE "exec", exp |-> [out |-> out]]>>,
      done |-> TRUE]

\* pairs under && and ||, both operands host-function results (fresh objects)
PairRowN(op, a, b, neg) ==
  LET l == IF neg THEN <<"un", "!", CallE("h1", <<>>)>> ELSE CallE("h1", <<>>)
      rt == IF neg THEN <<"un", "!", CallE("h2", <<>>)>> ELSE CallE("h2", <<>>)
      prog == <<Ret(BinE(op, l, rt))>>
      host == <<<<"h1", <<"val", a>>>>, <<"h2", <<"val", b>>>>>>
      r == RunProgram(prog, <<>>, <<>>, host, Fuel)
  IN [k |-> "truthpair", prog |-> prog, fns |-> host, vars |-> <<>>,
      runs |-> <<[obj |-> <<>>, act |-> "exec", exp |-> [out |-> r.out]]>>, done |-> TRUE]
PairRow(op, a, b) == PairRowN(op, a, b, FALSE)

\* results of built-ins in truth positions
BuiltinXs == << CallE("between", <<LitI(1), LitI(0), LitI(2)>>), CallE("between", <<LitI(5), LitI(0), LitI(2)>>),
                CallE("match", <<LitS(<<97>>), <<"lit", R(<<97>>, "")>>>>), CallE("match", <<LitS(<<98>>), <<"lit", R(<<97>>, "")>>>>),
                CallE("len", <<LitS(<<>>)>>), CallE("len", <<LitS(<<97>>)>>),
                CallE("int", <<LitS(<<120>>)>>), CallE("int", <<LitS(<<48>>)>>), CallE("int", <<LitS(<<45, 49>>)>>),
                CallE("string", <<LitI(0)>>), CallE("string", <<LitS(<<>>)>>),
                CallE("keys", <<<<"hash", <<>>>>>>), CallE("split", <<LitS(<<>>), LitS(<<44>>)>>),
                CallE("lower", <<LitB(FALSE)>>), CallE("type", <<<<"ref", "nothing">>>>) >>

BuiltinRow(pos, i) ==
  LET prog == ProgAt(pos, BuiltinXs[i])
      r == RunProgram(prog, <<>>, <<>>, <<>>, Fuel)
      out == IF pos = "run" /\ Defined(r.out) THEN B(Truthy(r.out)) ELSE r.out
  IN [k |-> "truthbuiltin", pos |-> pos, prog |-> prog, fns |-> <<>>, vars |-> <<>>,
      runs |-> <<[obj |-> <<>>, act |-> IF pos = "run" THEN "run" ELSE "exec", exp |-> [out |-> out]]>>, done |-> TRUE]

\* a ternary whose arms are constants, selected by a field, in every position
TSmall == <<B(TRUE), B(FALSE), I(1), I(0), S(<<>>), S(<<97>>)>>
TernRow(pos, a, b) ==
  LET prog == ProgAt(pos, <<"tern", Ref("C1"), <<"lit", TSmall[a]>>, <<"lit", TSmall[b]>>>>)
      One(c) == LET r == RunProgram(prog, <<>>, <<<<"C1", B(c)>>>>, <<>>, Fuel)
                    out == IF pos = "run" /\ Defined(r.out) THEN B(Truthy(r.out)) ELSE r.out
                IN [obj |-> <<<<"C1", B(c)>>>>, act |-> IF pos = "run" THEN "run" ELSE "exec", exp |-> [out |-> out]]
  IN [k |-> "truthtern", pos |-> pos, prog |-> prog, fns |-> <<>>, vars |-> <<>>,
      runs |-> <<One(TRUE), One(FALSE), One(TRUE)>>, done |-> TRUE]

Edge == << F(1, 2000000000), F(-1, 2000000000), F(1, 1000000000), F(1, 1000000), F(-1, 1000000), F(2000000000, 1), I(2000000000), I(-2000000000),
           F(1, 1024), F(-1, 1024) >>

Init ==
  \/ \E po \in 1..Len(Positions), a \in 1..Len(TSmall) :
       row = [k |-> "n0", pos |-> Positions[po], a |-> a, done |-> FALSE]
  \/ \E po \in 1..Len(Positions), p \in 1..Len(Provs) :
       row = [k |-> "t0", pos |-> Positions[po], prov |-> Provs[p], done |-> FALSE]
  \/ \E op \in {"&&", "||"}, a \in 1..NR : row = [k |-> "p0", op |-> op, a |-> a, done |-> FALSE]
  \/ \E po \in 1..Len(Positions) : row = [k |-> "b0", pos |-> Positions[po], done |-> FALSE]

Next ==
  /\ ~row.done
  /\ \/ /\ row.k = "t0"
        /\ \/ \E i \in 1..NV : ProvOK(row.prov, Vals[i]) /\ row' = RowFor(row.pos, row.prov, Vals[i])
           \* numbers next to zero and far from it: a positive number is truthy however small, a negative one is not
           \/ \E i \in 1..Len(Edge) : ProvOK(row.prov, Edge[i]) /\ row' = RowFor(row.pos, row.prov, Edge[i])
     \/ /\ row.k = "p0"
        /\ \E b \in 1..NR, neg \in BOOLEAN : row' = PairRowN(row.op, Red[row.a], Red[b], neg)
     \/ /\ row.k = "n0"
        /\ \E b \in 1..Len(TSmall) : row' = TernRow(row.pos, row.a, b)
     \/ /\ row.k = "b0"
        /\ \E i \in 1..Len(BuiltinXs) : row' = BuiltinRow(row.pos, i)

Spec == Init /\ [][Next]_vars

\* ---- checked on the model: every position is decided by Truthy alone ----
PositionsAgree ==
  (row.done /\ row.k = "truth") =>
     LET t == Truthy(row.v)  out == row.runs[1].exp.out IN
     CASE row.pos \in {"if", "while", "tern"} -> out = I(IF t THEN 1 ELSE 0)
       [] row.pos \in {"andl", "andr", "orl", "orr", "run"} -> out = B(t)
       [] row.pos = "not" -> out = (IF IsBool(row.v) THEN B(~row.v[2]) ELSE IF IsNull(row.v) THEN B(TRUE) ELSE B(FALSE))
       [] OTHER -> Defined(out)

Export == row.done => PrintT(<<"ROW", ToJson(row)>>)
=============================================================================
