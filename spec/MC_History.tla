----------------------------- MODULE MC_History -----------------------------
(***************************************************************************)
(* C07: a prepared script carries no hidden state from run to run.  A      *)
(* script whose path is selected by the object field M - normal return,    *)
(* early return from nested loops at top level and inside a function,      *)
(* division by zero / panic() / unknown function / argument mismatch       *)
(* inside a function, one and two calls deep, an error inside a top-level  *)
(* loop, a run that never ends (cut off by the deadline) inside a function *)
(* - is run over every sequence of modes up to a bound on ONE evaluator.   *)
(* The script keeps a persistent counter and mutates a variable set from a *)
(* large literal, so leaked state becomes visible.  The reference          *)
(* semantics is applied run by run to (script, object, current variables): *)
(* by construction its answer does not depend on history.                  *)
(***************************************************************************)
EXTENDS EFCorpus, Json

CONSTANT Tier,
         Seed      \* >= 1: shifts which part of a sampled family is taken (1 = the default sample)

VARIABLE row
vars == <<row>>

Fuel == 60
Host == <<<<"t", <<"log">>>>>>

Func(name, params, body) == <<"func", name, params, body>>
Arr(es) == <<"arr", es>>
M == Ref("M")
IfM(k, body) == If(BinE("==", M, LitI(k)), body)
IfK(k, body) == If(BinE("==", Ref("k"), LitI(k)), body)

Script1 == <<
  Func("deep", <<"k">>, <<Ret(CallE("boom", <<Ref("k")>>))>>),
  Func("spin", <<>>, <<While(LitB(TRUE), <<>>)>>),
  Func("boom", <<"k">>, <<
     IfK(1, <<Ret(BinE("/", LitI(1), LitI(0)))>>),
     IfK(2, <<<<"expr", CallE("panic", <<LitS(<<120>>)>>)>>>>),
     IfK(3, <<Ret(CallE("nosuch", <<LitI(1)>>))>>),
     IfK(4, <<Ret(CallE("boom", <<LitI(1), LitI(2)>>))>>),
     IfK(10, <<<<"expr", CallE("spin", <<>>)>>>>),
     ForEach("", "a", Arr(<<LitI(1), LitI(2), LitI(3)>>), <<
        ForEach("", "b", Arr(<<LitI(1), LitI(2)>>), <<
           IfK(5, <<Ret(BinE("+", BinE("*", Ref("a"), LitI(10)), Ref("b")))>>)>>)>>),
     Ret(Ref("k"))>>),
  \* literals which reach ++ / -- through a parameter and through a loop variable (they live in the constant pool)
  Func("next", <<"p">>, <<<<"post", "++", "p">>, Ret(Ref("p"))>>),
  Bump("n"),
  Asg("s1", CallE("next", <<<<"lit", F(1, 2)>>>>)), Asg("s2", CallE("next", <<LitI(100000)>>)),
  ForEach("", "e", Arr(<<LitI(70001), <<"lit", F(3, 2)>>>>), <<<<"post", "--", "e">>, TE(Ref("e"))>>),
  Asg("lit", LitI(70000)), <<"post", "++", "lit">>,
  Asg("flt", <<"lit", F(5, 2)>>), <<"post", "--", "flt">>,
  IfM(6, <<ForEach("", "a", Arr(<<LitI(1), LitI(2), LitI(3)>>), <<
              ForEach("", "b", LitS(<<120, 121>>), <<
                 If(BinE("==", Ref("b"), LitS(<<121>>)), <<Ret(Arr(<<Ref("n"), Ref("a"), Ref("b")>>))>>)>>)>>)>>),
  IfM(7, <<ForEach("", "a", Arr(<<LitI(1), LitI(2)>>), <<TE(Ref("a")), Asg("x", BinE("/", LitI(1), LitI(0)))>>)>>),
  IfM(8, <<Ret(Arr(<<Ref("n"), CallE("deep", <<LitI(1)>>)>>))>>),
  IfM(9, <<Ret(Arr(<<Ref("n"), CallE("deep", <<LitI(5)>>)>>))>>),
  Asg("r", CallE("boom", <<M>>)),
  TE(Ref("r")),
  Ret(Arr(<<Ref("n"), Ref("r"), Ref("lit"), Ref("flt"), Ref("a"), Ref("b"), Ref("k"), Ref("s1"), Ref("s2")>>))
>>

\* the same faults at top level, in and around loops, with a function that only counts
Script2 == <<
  Func("inc", <<"d">>, <<Asg("n", BinE("+", Ref("n"), Ref("d"))), Ret(Ref("n"))>>),
  <<"expr", CallE("inc", <<LitI(1)>>)>>,
  ForEach("i", "e", Arr(<<LitI(4), LitI(5), LitI(6)>>), <<
     TE(Ref("e")),
     IfM(1, <<Asg("x", BinE("/", Ref("e"), LitI(0)))>>),
     IfM(2, <<<<"expr", CallE("panic", <<>>)>>>>),
     IfM(3, <<Asg("x", CallE("nosuch", <<>>))>>),
     IfM(4, <<Asg("x", CallE("inc", <<>>))>>),
     IfM(5, <<If(BinE("==", Ref("e"), LitI(5)), <<Ret(Arr(<<Ref("n"), Ref("e"), Ref("i")>>))>>)>>),
     IfM(6, <<Asg("x", BinE("[]", Ref("e"), LitI(0)))>>),
     IfM(7, <<Asg("x", BinE("+", Ref("e"), LitS(<<97>>)))>>),
     IfM(8, <<ForEach("", "c", LitS(<<112, 113>>), <<If(BinE("==", Ref("c"), LitS(<<113>>)), <<Ret(Arr(<<Ref("n"), Ref("c")>>))>>)>>)>>),
     IfM(9, <<ForEach("", "c", Ref("e"), <<T(1)>>)>>),
     IfM(10, <<While(LitB(TRUE), <<>>)>>)
  >>),
  Ret(Arr(<<Ref("n"), Ref("e"), Ref("i"), Ref("c"), Ref("x")>>))
>>

Modes == 0..11
G0 == <<<<"n", I(0)>>>>

RECURSIVE RunSeq(_, _, _, _)
RunSeq(prog, ms, i, g) ==
  IF i > Len(ms) THEN <<>>
  ELSE LET obj == IF ms[i] = 11 THEN <<>> ELSE <<<<"M", I(ms[i])>>>>       \* mode 11: no object at all (nil)
           r == RunProgram(prog, g, obj, Host, Fuel) IN
       <<[obj |-> obj, nilobj |-> (ms[i] = 11), pre |-> g, exp |-> [out |-> r.out, calls |-> r.calls, vars |-> r.g]]>>
         \o RunSeq(prog, ms, i + 1, r.g)

Row(sc, ms) ==
  LET prog == IF sc = 1 THEN Script1 ELSE Script2 IN
  [k |-> "history", sc |-> sc, ms |-> ms, prog |-> prog, fns |-> Host, vars |-> G0, errvars |-> TRUE,
   runs |-> RunSeq(prog, ms, 1, G0), done |-> TRUE]

Init == \E sc \in 1..2, m1 \in Modes : row = [k |-> "h0", sc |-> sc, m1 |-> m1, done |-> FALSE]

Next == /\ ~row.done
        /\ \/ \E m2 \in Modes : row' = Row(row.sc, <<row.m1, m2>>)
           \/ \E m2 \in Modes, m3 \in Modes :
                /\ (Tier = "thorough" \/ (row.m1 + 3 * m2 + 7 * m3 + Seed - 1) % 4 = 0)
                /\ row' = Row(row.sc, <<row.m1, m2, m3>>)
           \/ /\ Tier = "thorough"
              /\ \E m2 \in Modes, m3 \in Modes, m4 \in Modes :
                   row' = Row(row.sc, <<row.m1, m2, m3, m4>>)
           \/ /\ Tier = "thorough"
              /\ \E m2 \in Modes, m3 \in Modes, m4 \in Modes, m5 \in Modes :
                   /\ (row.m1 + 3 * m2 + 7 * m3 + 11 * m4 + 13 * m5 + Seed - 1) % 5 = 0
                   /\ row' = Row(row.sc, <<row.m1, m2, m3, m4, m5>>)

Spec == Init /\ [][Next]_vars

\* ---- checked on the model: the outcome of a run is a function of (object, variables) ----
\* (true by construction of the reference; kept as a guard on the row builder)
HistoryIndependent ==
  row.done => \A i \in 1..Len(row.runs), j \in 1..Len(row.runs) :
     (row.runs[i].obj = row.runs[j].obj /\ row.runs[i].pre = row.runs[j].pre) => row.runs[i].exp = row.runs[j].exp

\* the persistent counter counts the runs
Counts == row.done => \A i \in 1..Len(row.runs) : Get(row.runs[i].exp.vars, "n") = I(i)

Export == row.done => PrintT(<<"ROW", ToJson(row)>>)
=============================================================================
