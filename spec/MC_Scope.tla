------------------------------ MODULE MC_Scope ------------------------------
(***************************************************************************)
(* C06: functions and scopes.  Templates with user-defined functions whose *)
(* parameter, local and loop-variable names are drawn from a pool that     *)
(* clashes with the caller's globals, parameters, locals and loop          *)
(* variables; nested and recursive calls; calls before the definition;     *)
(* `return` from every nesting depth inside foreach / while / switch / if  *)
(* inside a function called from inside a loop; functions without return;  *)
(* wrong argument counts; unknown functions; a user function named like a  *)
(* built-in.  After the call the script reads every name involved, and the *)
(* variables left are compared as well.  Each program runs twice.          *)
(***************************************************************************)
EXTENDS EFCorpus, Json

CONSTANT Tier,
         Seed      \* (not used by this corpus: nothing in it is sampled)

VARIABLE row
vars == <<row>>

Fuel == IF Tier = "thorough" THEN 400 ELSE 60
Host == <<<<"t", <<"log">>>>>>

Func(name, params, body) == <<"func", name, params, body>>
Local(n) == <<"local", n>>
Arr(es) == <<"arr", es>>
Call(f, args) == CallE(f, args)
Plus(a, b) == BinE("+", a, b)

Names == <<"x", "y", "p", "g">>     \* "x" and "y" are also globals of the caller, "g" is written by some callees
NNames == IF Tier = "thorough" THEN 4 ELSE 3

\* the places a call can be made from
NPlaces == 6
At(place, stmts) ==
  CASE place = 1 -> stmts
    [] place = 2 -> <<ForEach("", "x", Arr(<<LitI(8), LitI(9)>>), stmts)>>
    [] place = 3 -> <<ForEach("i", "y", Arr(<<LitI(8)>>), stmts)>>
    [] place = 4 -> <<Asg("w", LitI(0)), While(BinE("<", Ref("w"), LitI(2)), <<Bump("w")>> \o stmts)>>
    [] place = 5 -> <<If(LitB(TRUE), stmts)>>
    [] place = 6 -> <<Func("outer", <<"x">>, stmts \o <<Ret(Ref("x"))>>), TE(Call("outer", <<LitI(77)>>))>>

\* the names an enclosing scope of the call site binds
Bound(place) == CASE place = 2 -> {"x"} [] place = 3 -> {"y", "i"} [] place = 6 -> {"x"} [] OTHER -> {}
\* a call site inside a call site (thorough tier): place2 = 0 means no second level
At2(place, place2, stmts) == At(place, IF place2 = 0 THEN stmts ELSE At(place2, stmts))

ReadAll == Ret(Arr(<<Ref("x"), Ref("y"), Ref("p"), Ref("q"), Ref("r"), Ref("g")>>))
Prelude == <<Asg("x", LitI(1)), Asg("y", LitI(2))>>

NTemplates == 23
\* template t with names a (parameter), b (local / loop variable) called at a place
Template(t, a, b) ==
  CASE t = 1  -> <<Func("f", <<a>>, <<Asg(a, Plus(Ref(a), LitI(10))), Ret(Ref(a))>>)>>                         \* parameter assigned
    [] t = 2  -> <<Func("f", <<a>>, <<Local(b), Asg(b, Plus(Ref(a), LitI(1))), Asg("g", Ref(b)), Ret(Ref(b))>>)>>      \* local + a global write
    [] t = 3  -> <<Func("f", <<a>>, <<ForEach("", b, Arr(<<LitI(4), LitI(5)>>), <<TE(Ref(b))>>), Ret(Ref(a))>>)>>      \* loop variable
    [] t = 4  -> <<Func("f", <<a>>, <<ForEach(b, a, Arr(<<LitI(4), LitI(5)>>), <<TE(Ref(b))>>), Ret(Ref(a))>>)>>       \* loop variable = parameter name
    [] t = 5  -> <<Func("f", <<a>>, <<If(BinE("<", Ref(a), LitI(1)), <<Ret(LitI(0))>>),
                                       Local(b), Asg(b, Call("f", <<BinE("-", Ref(a), LitI(1))>>)),
                                       Ret(Plus(Ref(a), Ref(b)))>>)>>                                              \* recursion, parameter read after the call
    [] t = 6  -> <<Func("f", <<a>>, <<Ret(Plus(Call("h2", <<Plus(Ref(a), LitI(1))>>), Ref(a)))>>),
                   Func("h2", <<a>>, <<Asg(a, Plus(Ref(a), LitI(100))), Ret(Ref(a))>>)>>                          \* nested call, same parameter name
    [] t = 7  -> <<Func("f", <<a>>, <<ForEach("", b, Arr(<<LitI(1), LitI(2), LitI(3)>>),
                                        <<ForEach("", "z", Arr(<<LitI(1), LitI(2)>>),
                                            <<If(BinE("==", Ref("z"), LitI(2)), <<Ret(Plus(Ref(b), Ref(a)))>>)>>)>>),
                                       Ret(LitI(0))>>)>>                                                          \* return from two nested loops
    [] t = 8  -> <<Func("f", <<a>>, <<Asg("n", LitI(0)),
                                       While(LitB(TRUE), <<Bump("n"), Switch(Ref("n"), <<Case(<<LitI(2)>>, <<Ret(Plus(Ref(a), Ref("n")))>>), Default(<<T(5)>>)>>)>>)>>)>>   \* return from switch in while
    [] t = 9  -> <<Func("f", <<a>>, <<TE(Ref(a))>>)>>                                                               \* no return: nothing comes back
    [] t = 10 -> <<Func("f", <<a, b>>, <<Ret(Plus(Ref(a), Ref(b)))>>)>>                                             \* called with one argument: error
    [] t = 11 -> <<Func("f", <<a>>, <<Ret(Call("nosuch", <<Ref(a)>>))>>)>>                                          \* unknown function: error
    [] t = 12 -> <<Func("len", <<a>>, <<Ret(LitI(99))>>), Func("f", <<a>>, <<Ret(Call("len", <<LitS(<<97, 98>>)>>))>>)>>   \* built-in wins
    [] t = 13 -> <<Func("f", <<a>>, <<Local(b), ForEach("", b, Arr(<<LitI(6)>>), <<Asg(b, Plus(Ref(b), LitI(1)))>>), Ret(Arr(<<Ref(a), Ref(b)>>))>>)>>   \* loop variable = local name
    [] t = 14 -> <<Func("f", <<a>>, <<If(BinE(">", Ref(a), LitI(0)), <<ForEach("", b, Arr(<<LitI(1), LitI(2)>>), <<If(BinE("==", Ref(b), LitI(1)), <<Ret(Call("f", <<BinE("-", Ref(a), LitI(1))>>))>>)>>)>>), Ret(Ref(a))>>)>>  \* recursion out of a loop
    [] t = 15 -> <<Func("f", <<a>>, <<Asg(b, Plus(Ref(a), LitI(1))), Ret(Ref(b))>>)>>                               \* assignment to a non-local name: global (or the caller's local of that name)
    [] t = 16 -> <<Func("f", <<a>>, <<Ret(Ref(a))>>), Func("f", <<a>>, <<Ret(Plus(Ref(a), LitI(1000)))>>)>>         \* defined twice: the later definition counts
    \* a function defined inside a function: as the last statement of the outer body, and in the middle
    [] t = 17 -> <<Func("f", <<a>>, <<Asg("g", Ref(a)), Func("inner", <<b>>, <<Ret(Plus(Ref(b), LitI(1)))>>)>>),
                   Func("f2", <<>>, <<Ret(Call("inner", <<LitI(40)>>))>>)>>
    [] t = 18 -> <<Func("f", <<a>>, <<Func("inner", <<b>>, <<If(BinE(">", Ref(b), LitI(0)), <<Ret(LitI(1))>>)>>), Ret(Call("inner", <<Ref(a)>>))>>)>>
    \* what one call bound must be gone when the next scope at the same depth opens: another function reading
    \* the names the first one bound, and a loop after the call assigning one of them
    [] t = 19 -> <<Func("f", <<a>>, <<Local(b), Asg(b, Plus(Ref(a), LitI(1))), Ret(Ref(b))>>),
                   Func("f2", <<>>, <<Ret(Arr(<<Ref(a), Ref(b)>>))>>)>>
    [] t = 20 -> <<Func("f", <<a>>, <<Local(b), Asg(b, Plus(Ref(a), LitI(1))), Ret(Ref(b))>>)>>
    \* recursion whose every level assigns its own local and its own parameter from inside a loop
    [] t = 23 -> <<Func("f", <<a>>, <<Local(b), Asg(b, LitI(0)),
                                       ForEach("", "z", Arr(<<LitI(1), LitI(2)>>), <<Asg(b, Plus(Ref(b), Ref("z"))), Asg(a, Plus(Ref(a), LitI(0)))>>),
                                       If(BinE(">", Ref(a), LitI(0)), <<Asg(b, Plus(Ref(b), Call("f", <<BinE("-", Ref(a), LitI(1))>>)))>>),
                                       Ret(Plus(Plus(Ref(b), Ref(b)), Ref(a)))>>)>>
    \* too many arguments, and none at all
    [] t = 21 -> <<Func("f", <<a>>, <<Ret(Ref(a))>>)>>
    [] t = 22 -> <<Func("f", <<a>>, <<Ret(LitI(5))>>)>>

\* definitions before (TRUE) or after (FALSE) the code that calls them
ProgAt(t, a, b, place, place2, before) ==
  LET defs == Template(t, a, b)
      arg  == IF t \in {5, 14, 23} THEN LitI(2) ELSE LitI(3)
      call == IF t = 9 THEN <<<<"expr", Call("f", <<arg>>)>>, Asg("r", LitI(1))>>
              ELSE IF t = 19 THEN <<Asg("r", Call("f", <<arg>>)), TE(Ref("r")), TE(Call("f2", <<>>))>>
              ELSE IF t = 20 THEN <<Asg("r", Call("f", <<arg>>)), TE(Ref("r")),
                                    ForEach("", "z", Arr(<<LitI(1), LitI(2)>>), <<Asg(a, Plus(Ref("z"), LitI(10))), Asg(b, Ref("z"))>>), TE(Ref(a)), TE(Ref(b))>>
              ELSE IF t = 21 THEN <<Asg("r", Call("f", <<arg, LitI(4)>>)), TE(Ref("r"))>>
              ELSE IF t = 22 THEN <<Asg("r", Call("f", <<>>)), TE(Ref("r"))>>
              ELSE IF t = 17 THEN <<<<"expr", Call("f", <<arg>>)>>, Asg("r", Call("f2", <<>>)), TE(Ref("r"))>>
              ELSE <<Asg("r", Call("f", <<arg>>)), TE(Ref("r"))>>
      body == Prelude \o At2(place, place2, call) \o <<ReadAll>>
  IN IF before THEN defs \o body ELSE body \o defs
Prog(t, a, b, place, before) == ProgAt(t, a, b, place, 0, before)

Row(t, a, b, place, place2, before) ==
  LET prog == ProgAt(t, a, b, place, place2, before)
      r1 == RunProgram(prog, <<>>, <<>>, Host, Fuel)
      r2 == RunProgram(prog, r1.g, <<>>, Host, Fuel)
  IN [k |-> "scope", t |-> t, prog |-> prog, fns |-> Host, vars |-> <<>>, errvars |-> TRUE,
      runs |-> <<[obj |-> <<>>, exp |-> [out |-> r1.out, calls |-> r1.calls, vars |-> r1.g]],
                 [obj |-> <<>>, exp |-> [out |-> r2.out, calls |-> r2.calls, vars |-> r2.g]]>>,
      done |-> TRUE]

Init == \E t \in 1..NTemplates, a \in 1..NNames : row = [k |-> "s0", t |-> t, a |-> Names[a], done |-> FALSE]

Next == /\ ~row.done
        /\ \E b \in 1..NNames, place \in 1..NPlaces, place2 \in 0..NPlaces, before \in BOOLEAN :
             /\ Names[b] # row.a
             /\ (Tier = "thorough" \/ place2 = 0)
             /\ ~(place = 6 /\ place2 = 6)                     \* (two definitions of "outer", one inside the other)
             \* a callee assigning a name which an enclosing scope of the CALLER binds: the
             \* statement only says "other names are global"; not generated
             /\ ~(row.t = 15 /\ Names[b] \in (Bound(place) \cup Bound(place2)))
             /\ row' = Row(row.t, row.a, Names[b], place, place2, before)

Spec == Init /\ [][Next]_vars

\* ---- checked on the model ---------------------------------------------
\* the corpus is specified except where a value-less call is used as a value
Specified == row.done => \A i \in 1..2 : Tag(row.runs[i].exp.out) # "DIVERGE"
\* functions whose template must fail do fail, the others do not
Errors == row.done => ((row.t \in {10, 11, 21, 22}) <=> IsErr(row.runs[1].exp.out))

Export == row.done => PrintT(<<"ROW", ToJson(row)>>)
=============================================================================
