------------------------------- MODULE MC_Lits ------------------------------
(***************************************************************************)
(* C14: every literal denotes what it spells - also when other literals of *)
(* the same script are spelled alike.  A string, an integer, a decimal and *)
(* a regexp may print the same ("2.5" and 2.5, "100000", 100000 and        *)
(* 100000.0, "a.c" and /a.c/); a script which writes several of them still *)
(* means each one.  Programs: every ordered pair and triple of literals of *)
(* one such class, assigned, read back with their types, used in an        *)
(* operation of their own type; each program runs twice.                   *)
(***************************************************************************)
EXTENDS EFSyntax, Json

VARIABLE row
vars == <<row>>

Fuel == 40
L(v) == <<"lit", v>>
Arr(es) == <<"arr", es>>

\* "2.5" = 50 46 53; "100000" = 49 48 48 48 48 48; "7" = 55; "a.c" = 97 46 99; "65535" = 54 53 53 51 53; "0.5" = 48 46 53
Classes == <<
  << S(<<50, 46, 53>>), F(5, 2) >>,
  << S(<<49, 48, 48, 48, 48, 48>>), I(100000), F(100000, 1) >>,
  << S(<<55>>), I(7), F(7, 1) >>,
  << S(<<54, 53, 53, 51, 53>>), I(65535), F(65535, 1) >>,
  << S(<<48, 46, 53>>), F(1, 2) >>,
  << S(<<97, 46, 99>>), R(<<97, 46, 99>>, "") >>
>>

\* an expression which uses v as what it is: a number in arithmetic, a string in concatenation and len, a
\* regexp in a match
Use(e, v) ==
  CASE IsNum(v) -> BinE("+", e, LitI(1))
    [] IsStr(v) -> BinE("+", e, LitS(<<33>>))
    [] IsRe(v)  -> BinE("~=", LitS(<<97, 98, 99>>), e)
Kind(e, v) == IF IsRe(v) THEN BinE("~=", LitS(<<97, 46, 99>>), e) ELSE CallE("type", <<e>>)

\* literals written in the given order, each used in place and through a variable
Prog(vs) ==
  LET n == Len(vs)
      name(i) == <<"a", "b", "c">>[i]
      asg == [i \in 1..n |-> Asg(name(i), L(vs[i]))]
      direct == [i \in 1..n |-> Use(L(vs[i]), vs[i])]
      viaVar == [i \in 1..n |-> Use(Ref(name(i)), vs[i])]
      kinds == [i \in 1..n |-> Kind(Ref(name(i)), vs[i])]
  IN asg \o <<Ret(Arr(direct \o viaVar \o kinds))>>

MkRow(vs) ==
  LET prog == Prog(vs)
      r1 == RunProgram(prog, <<>>, <<>>, <<>>, Fuel)
      r2 == RunProgram(prog, r1.g, <<>>, <<>>, Fuel)
  IN [k |-> "lits", prog |-> prog, fns |-> <<>>, vars |-> <<>>,
      runs |-> <<[obj |-> <<>>, exp |-> [out |-> r1.out]], [obj |-> <<>>, exp |-> [out |-> r2.out]]>>, done |-> TRUE]

Init == \E c \in 1..Len(Classes) : row = [k |-> "l0", c |-> c, done |-> FALSE]
Next ==
  /\ ~row.done
  /\ LET cl == Classes[row.c] IN
     \/ \E i \in 1..Len(cl), j \in 1..Len(cl) : i # j /\ row' = MkRow(<<cl[i], cl[j]>>)
     \/ \E i \in 1..Len(cl), j \in 1..Len(cl), k \in 1..Len(cl) : i # j /\ j # k /\ i # k /\ row' = MkRow(<<cl[i], cl[j], cl[k]>>)

Spec == Init /\ [][Next]_vars

\* every program of the corpus has a value: nothing here is unconstrained
Specified == row.done => \A i \in 1..2 : ~IsSkip(row.runs[i].exp.out) /\ ~IsErr(row.runs[i].exp.out)

Export == row.done => PrintT(<<"ROW", ToJson(row)>>)
=============================================================================
