#!/bin/bash
# tools/intake.sh <outdir> - copy the deliveries of sub-agents (<outdir>/<Cnn>/m<k>/{patch.diff,zz_demo_test.go,notes.md})
# to /verif/seeded/<Cnn>-m<k>/ with a meta.json; run tools/matrix.sh on them afterwards
set -u
out="$1"
for d in "$out"/C*/m*; do
  [ -f "$d/patch.diff" ] || continue
  prop=$(basename $(dirname "$d")); k=$(basename "$d"); id="$prop-$k"
  mkdir -p /verif/seeded/$id
  cp "$d/patch.diff" "$d/zz_demo_test.go" /verif/seeded/$id/ 2>/dev/null
  [ -f "$d/notes.md" ] && cp "$d/notes.md" /verif/seeded/$id/
  python3 - "$id" "$prop" <<'PY'
import json,sys,os
id,prop=sys.argv[1],sys.argv[2]
notes=''
p='/verif/seeded/%s/notes.md'%id
if os.path.exists(p): notes=' '.join(open(p).read().split())[:600]
json.dump({"id":id,"property":prop,"origin":"independent sub-agent given only the property text and a scratch worktree of /repo (second round: asked for subtle changes)",
 "needs_to_manifest":"see notes.md (written by the sub-agent): "+notes,
 "ran":["tools/mutant.sh verify (scratch worktree: demo passes unpatched; patched: builds with and without -tags verif, pinned suite passes, demo fails)","tools/mutant.sh detect (patch applied to /repo, quick check run, patch removed)"],
 "also":[]},open('/verif/seeded/%s/meta.json'%id,'w'),indent=1)
PY
  echo "intake $id"
done
