#!/bin/bash
# tools/allquick.sh [tier] - run every registered check once on the current tree; prints exit status and wall time
tier="${1:-quick}"
cd /verif
for p in $(python3 -c "import json;print(' '.join(c['property_id'] for c in json.load(open('MANIFEST.json'))['checks']))"); do
  s=$(date +%s)
  out=$(./efcheck $p --tier $tier 2>&1); rc=$?
  e=$(date +%s)
  echo "$p exit=$rc $((e-s))s $(echo "$out" | grep -a "^$p tier" | sed 's/.*states=/states=/' | cut -c1-160) $(echo "$out" | grep -a -c '^KNOWN-FINDING') known-finding lines"
  [ $rc -ne 0 ] && echo "$out" | grep -a "^INCONCL\|^VIOLATION" | head -3
done
