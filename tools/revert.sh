#!/bin/bash
# tools/revert.sh <fix-commit> <Cnn>...  - undo one fix: commit in /repo's working tree, run the quick checks named, restore.
set -u
c="$1"; shift
if [ -n "$(git -C /repo status --porcelain)" ]; then echo "/repo is not clean"; exit 2; fi
git -C /repo diff "$c" "$c~1" | git -C /repo apply || { echo "REVERT $c does not apply"; exit 2; }
for p in "$@"; do
  out="$(/verif/efcheck "$p" --tier quick 2>&1)"; rc=$?
  echo "REVERT $c $p exit=$rc $(echo "$out" | grep -c '^VIOLATION') violation lines"
  echo "$out" | grep -A1 '^VIOLATION' | head -2 | cut -c1-300
  echo "$out" | grep '^INCONCLUSIVE' | head -2 | cut -c1-300
done
git -C /repo checkout -- . && git -C /repo clean -fdq
