#!/bin/bash
# tools/mutant.sh verify <dir>            - confirm a seeded change in a scratch worktree:
#                                           demo passes without it; with it: builds, pinned suite passes, demo fails
# tools/mutant.sh detect <dir> <Cnn>...   - apply it to /repo, run the quick checks named, undo it; prints exit codes
# <dir> holds patch.diff and zz_demo_test.go
set -u
export GOFLAGS=-mod=mod GOPROXY=off GOSUMDB=off GOTOOLCHAIN=local
mode="$1"; dir="$(cd "$2" && pwd)"; shift 2
case "$mode" in
verify)
  wt="$(mktemp -d /tmp/mv.XXXXXX)"; rmdir "$wt"
  git -C /repo worktree add -q --detach "$wt" HEAD || exit 2
  trap 'git -C /repo worktree remove --force "$wt" >/dev/null 2>&1; rm -rf "$wt"' EXIT
  cp "$dir/zz_demo_test.go" "$wt/"
  pkg="."
  (cd "$wt" && timeout 600 go test -vet=off -count=1 -run 'Demo' $pkg > "$wt/.demo0.log" 2>&1); d0=$?
  rm "$wt/zz_demo_test.go"
  (cd "$wt" && git apply --recount "$dir/patch.diff") || { echo "VERIFY patch does not apply"; exit 1; }
  (cd "$wt" && go build ./... && go build -tags verif ./...) > "$wt/.build.log" 2>&1; b=$?
  (cd "$wt" && timeout 900 go test -vet=off -count=1 ./... > "$wt/.suite.log" 2>&1); s=$?
  cp "$dir/zz_demo_test.go" "$wt/"
  (cd "$wt" && timeout 600 go test -vet=off -count=1 -run 'Demo' $pkg > "$wt/.demo1.log" 2>&1); d1=$?
  echo "VERIFY $(basename $(dirname $dir))/$(basename $dir): demo-unpatched=$d0 build=$b suite=$s demo-patched=$d1"
  if [ $d0 -eq 0 ] && [ $b -eq 0 ] && [ $s -eq 0 ] && [ $d1 -ne 0 ]; then echo "VERIFY OK"; exit 0; fi
  tail -5 "$wt/.demo0.log" "$wt/.build.log" "$wt/.suite.log" "$wt/.demo1.log" | head -60
  exit 1;;
detect)
  if [ -n "$(git -C /repo status --porcelain)" ]; then echo "/repo is not clean"; exit 2; fi
  git -C /repo apply --recount "$dir/patch.diff" || exit 2
  for p in "$@"; do
    out="$(/verif/efcheck "$p" --tier quick 2>&1)"; rc=$?
    echo "DETECT $(basename $(dirname $dir))/$(basename $dir) $p exit=$rc $(echo "$out" | grep -c '^VIOLATION') violation lines"
    echo "$out" | grep -A1 '^VIOLATION' | head -4
    echo "$out" | grep '^INCONCLUSIVE' | head -2
  done
  git -C /repo checkout -- . && git -C /repo clean -fdq
  ;;
esac
