#!/bin/bash
# tools/matrix.sh [ids...] - for every seeded change under /verif/seeded: confirm it (scratch worktree) and run the
# quick check of the property it breaks (plus any extra checks listed in meta.json "also"); writes seeded/<id>/result.txt
set -u
cd /verif
ids="$@"
[ -z "$ids" ] && ids=$(ls seeded)
for id in $ids; do
  d=seeded/$id
  prop=$(python3 -c "import json;print(json.load(open('$d/meta.json'))['property'])")
  also=$(python3 -c "import json;print(' '.join(json.load(open('$d/meta.json')).get('also',[])))")
  {
    tools/mutant.sh verify $d | tail -2
    tools/mutant.sh detect $d $prop $also
  } > $d/result.txt 2>&1
  echo "$id: $(grep -a -c 'VERIFY OK' $d/result.txt) verified; $(grep -a '^DETECT' $d/result.txt | sed 's/DETECT [^ ]* //' | tr '\n' ';')"
done
