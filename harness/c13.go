package main

// C13: Prepare rejects every enumerated invalid script and accepts its repaired sibling.

import (
	"encoding/json"
	"strings"

	"github.com/skx/evalfilter/v2"
)

func init() {
	checks["C13"] = checkC13
}

func prepareOnly(src string) (err error, panicked interface{}) {
	defer func() {
		if r := recover(); r != nil {
			panicked = r
		}
	}()
	e := evalfilter.New(src)
	err = e.Prepare()
	return
}

func checkC13(c *Check) {
	c.rule = "MC_Reject: 62 invalid fragments (unterminated string / regexp / block / parameter list / switch / array / hash / index / call / group, illegal regexp flag in lower and upper case, missing operands, assignment and compound assignment to a non-variable, local outside a function, nested ternaries, illegal characters, malformed foreach and function headers, stray closing brace) x 19 expression contexts (assignment, both ternary arms, call arguments, array element, hash value, index, return value, bracketed operand, if condition, case expression) x chains of 14 statement contexts (top level, if, else, else-if, while, foreach, function, switch case, switch default, between statements, after a complete function definition, after a return in a block / in a function, after nested blocks) nested to depth 2 (thorough: 3, every triple); each with its repaired sibling which must be ACCEPTED; plus every truncation of 4 valid programs at a token boundary where a bracket is open; TLC checks on the model that siblings and whole programs are bracket-balanced and the unbalanced fragments and truncations are not; distinct = distinct script text"
	c.assumptions = []string{"a ternary is not placed inside a ternary arm except as the nested-ternary fragment itself", "local is valid anywhere inside a function body"}
	type rejRow struct {
		K          string   `json:"k"`
		Why        string   `json:"why"`
		Bad        []string `json:"bad"`
		BadInvalid bool     `json:"badinvalid"`
		Good       []string `json:"good"`
		Prefix     []string `json:"prefix"`
		Whole      []string `json:"whole"`
	}
	runRows(c, "MC_Reject", stdCfg(c.Tier, "ReasonsHold"), func(row *Row) {
		var r rejRow
		if err := json.Unmarshal(row.Raw, &r); err != nil {
			c.fail("bad row " + err.Error())
			return
		}
		check := func(src string, wantReject bool, why string) {
			c.count(src, true)
			err, p := prepareOnly(src)
			if p != nil {
				c.disagree(&Disagreement{Kind: "panic", Script: src, Expected: "an error or acceptance", Got: "Prepare panicked: " + describeAny(p), Row: row.Raw})
				return
			}
			if wantReject && err == nil {
				c.disagree(&Disagreement{Kind: "invalid-accepted", Script: src, Expected: "Prepare returns an error (" + why + ")", Got: "accepted", Row: row.Raw})
			}
			if !wantReject && err != nil {
				c.disagree(&Disagreement{Kind: "valid-rejected", Script: src, Expected: "accepted (the repaired sibling of: " + why + ")", Got: err.Error(), Row: row.Raw})
			}
		}
		switch r.K {
		case "reject":
			bad, good := strings.Join(r.Bad, " "), strings.Join(r.Good, " ")
			c.sample(map[string]interface{}{"invalid": bad, "why": r.Why, "valid_sibling": good})
			check(bad, r.BadInvalid, r.Why)
			check(good, false, r.Why)
		case "trunc":
			check(strings.Join(r.Prefix, " "), true, r.Why)
			check(strings.Join(r.Whole, " "), false, r.Why)
		}
	})
}
