package main

// C18: the prepared programs of the real evaluator are handed to TLC
// (MC_Verify), which explores all control-flow paths of every body.

import (
	"encoding/json"
	"fmt"
	"os"
	"sort"
	"strings"
	"sync"
	"time"

	"github.com/skx/evalfilter/v2"
	"github.com/skx/evalfilter/v2/code"
	"github.com/skx/evalfilter/v2/object"
)

func init() {
	checks["C18"] = checkC18
}

type bodyDump struct {
	Name string `json:"name"`
	IsFn bool   `json:"isfn"`
	Code []int  `json:"code"`
}

type progDump struct {
	ID     int               `json:"id"`
	Consts []string          `json:"consts"`
	CVals  []json.RawMessage `json:"cvals"` // the constants as values (Trace_VM follows integers, strings, booleans, null)
	Bodies []bodyDump        `json:"bodies"`
	script string
	mode   string
}

func bytesToInts(b code.Instructions) []int {
	out := make([]int, len(b))
	for i, x := range b {
		out[i] = int(x)
	}
	return out
}

func constKind(o object.Object) string {
	switch o.(type) {
	case *object.String:
		return "S"
	case *object.Integer:
		return "I"
	case *object.Float:
		return "F"
	case *object.Regexp:
		return "R"
	}
	return "?"
}

// dumpPrepared prepares the script and returns the program as the VM will run it
func dumpPrepared(script string, optimize bool) (*progDump, error) {
	e := evalfilter.New(script)
	var err error
	func() {
		defer func() {
			if r := recover(); r != nil {
				err = fmt.Errorf("PANIC in Prepare: %v", r)
			}
		}()
		if optimize {
			err = e.Prepare()
		} else {
			err = e.Prepare([]byte{evalfilter.NoOptimize})
		}
	}()
	if err != nil {
		return nil, err
	}
	m := e.VerifMachine()
	d := &progDump{script: script, Consts: []string{}, CVals: []json.RawMessage{}}
	if optimize {
		d.mode = "opt"
	} else {
		d.mode = "noopt"
	}
	for _, c := range m.VerifConstants() {
		d.Consts = append(d.Consts, constKind(c))
		d.CVals = append(d.CVals, encodeObject(c, 0))
	}
	d.Bodies = append(d.Bodies, bodyDump{Name: "main", IsFn: false, Code: bytesToInts(m.VerifBytecode())})
	fns := m.VerifFunctions()
	names := []string{}
	for n := range fns {
		names = append(names, n)
	}
	sort.Strings(names)
	for _, n := range names {
		d.Bodies = append(d.Bodies, bodyDump{Name: n, IsFn: true, Code: bytesToInts(fns[n].Bytecode)})
	}
	return d, nil
}

// evalfilterPrepared prepares the script without optimisation (nil on failure)
func evalfilterPrepared(script string) *evalfilter.Eval {
	e := evalfilter.New(script)
	if err := e.Prepare([]byte{evalfilter.NoOptimize}); err != nil {
		return nil
	}
	return e
}

// ---- an independent re-check in Go of what TLC reports -------------------------------
var wideOps = map[int]bool{0: true, 1: true, 2: true, 3: true, 4: true, 5: true, 6: true, 7: true, 22: true, 23: true}

func opLen(op int) int {
	if wideOps[op] {
		return 3
	}
	return 1
}

// confirm re-establishes a reported defect of body b at offset ip by decoding the bytes afresh
func confirmBad(d *progDump, bodyName string, ip int, why string) (bool, string) {
	var b *bodyDump
	for i := range d.Bodies {
		if d.Bodies[i].Name == bodyName {
			b = &d.Bodies[i]
		}
	}
	if b == nil {
		return false, "no such body"
	}
	starts := map[int]bool{}
	decodeOK := ""
	for i := 0; i < len(b.Code); {
		op := b.Code[i]
		if op > 42 {
			decodeOK = fmt.Sprintf("unknown opcode %d at %d", op, i)
			break
		}
		if i+opLen(op) > len(b.Code) {
			decodeOK = fmt.Sprintf("operand of opcode %d at %d runs past the end (%d bytes)", op, i, len(b.Code))
			break
		}
		starts[i] = true
		i += opLen(op)
	}
	switch {
	case strings.HasPrefix(why, "decode"):
		return decodeOK != "", decodeOK
	case strings.HasPrefix(why, "target"):
		if ip+2 < len(b.Code) {
			t := b.Code[ip+1]*256 + b.Code[ip+2]
			return !starts[t], fmt.Sprintf("jump at %d targets %d, instruction starts there: %v, body length %d", ip, t, starts[t], len(b.Code))
		}
	case strings.HasPrefix(why, "constant"):
		if ip+2 < len(b.Code) {
			k := b.Code[ip+1]*256 + b.Code[ip+2]
			if k >= len(d.Consts) {
				return true, fmt.Sprintf("instruction at %d names constant %d of %d", ip, k, len(d.Consts))
			}
			return d.Consts[k] != "S", fmt.Sprintf("instruction at %d names constant %d of kind %s", ip, k, d.Consts[k])
		}
	case strings.HasPrefix(why, "noreturn"), strings.HasPrefix(why, "underflow"):
		// path properties: re-run the abstract interpretation in Go
		found := goAbstract(d, b, starts)
		for _, f := range found {
			if strings.HasPrefix(f, strings.SplitN(why, ":", 2)[0]) {
				return true, f
			}
		}
		return false, "the Go re-check finds no such path"
	}
	return false, "unrecognised report"
}

type absState struct {
	ip, depth int
	bases     string
	tos       byte
}

// goAbstract explores all paths of one body with the rules of MC_Verify (written separately)
func goAbstract(d *progDump, b *bodyDump, starts map[int]bool) []string {
	const cap = 12
	var out []string
	seen := map[absState]bool{}
	var work []struct {
		s     absState
		bases []int
	}
	push := func(ip, depth int, bases []int, tos byte) {
		if depth >= cap {
			depth = cap
		}
		key := absState{ip, depth, fmt.Sprint(bases), tos}
		if seen[key] {
			return
		}
		seen[key] = true
		work = append(work, struct {
			s     absState
			bases []int
		}{key, append([]int{}, bases...)})
	}
	push(0, 0, nil, '?')
	for len(work) > 0 {
		w := work[len(work)-1]
		work = work[:len(work)-1]
		ip, depth, bases, tos := w.s.ip, w.s.depth, w.bases, w.s.tos
		if ip >= len(b.Code) {
			if b.IsFn {
				out = append(out, fmt.Sprintf("noreturn: end of %s reachable with stack height %d", b.Name, depth))
			}
			continue
		}
		op := b.Code[ip]
		arg := 0
		if opLen(op) == 3 {
			arg = b.Code[ip+1]*256 + b.Code[ip+2]
		}
		nxt := ip + opLen(op)
		pop := func(n, pushes int, t byte) {
			if depth == cap {
				push(nxt, cap, bases, t)
				return
			}
			if depth < n {
				out = append(out, fmt.Sprintf("underflow: opcode %d at %d of %s needs %d values, the path produced %d", op, ip, b.Name, n, depth))
				return
			}
			push(nxt, depth-n+pushes, bases, t)
		}
		switch {
		case op == 8 || op == 9:
			push(nxt, depth, bases, tos)
		case op == 0 || op == 4 || op == 5 || op == 14:
			push(nxt, depth+1, bases, '?')
		case op == 12:
			push(nxt, depth+1, bases, 'T')
		case op == 13:
			push(nxt, depth+1, bases, 'F')
		case op == 22 || op == 23 || op == 11:
			pop(1, 0, '?')
		case op == 10:
			pop(2, 0, '?')
		case op == 25 || op == 26 || op == 27:
			pop(1, 1, '?')
		case op == 15 || (op >= 16 && op <= 21) || (op >= 28 && op <= 39) || op == 42:
			pop(2, 1, '?')
		case op == 6 || op == 7:
			pop(arg, 1, '?')
		case op == 3:
			pop(arg+1, 1, '?')
		case op == 24:
			if depth < 1 {
				out = append(out, fmt.Sprintf("underflow: return at %d of %s with an empty stack", ip, b.Name))
			}
		case op == 1:
			if starts[arg] {
				push(arg, depth, bases, tos)
			}
		case op == 2:
			if depth < 1 {
				out = append(out, fmt.Sprintf("underflow: conditional jump at %d of %s with an empty stack", ip, b.Name))
				continue
			}
			if tos != 'F' {
				push(nxt, depth-1, bases, '?')
			}
			if tos != 'T' && starts[arg] {
				push(arg, depth-1, bases, '?')
			}
		case op == 40:
			if depth < 1 {
				out = append(out, fmt.Sprintf("underflow: iteration reset at %d of %s with an empty stack", ip, b.Name))
				continue
			}
			push(nxt, depth, append(append([]int{}, bases...), depth), '?')
		case op == 41:
			base := depth - 2
			if depth == cap {
				base = cap
			}
			nb := bases
			if len(bases) > 0 {
				base = bases[len(bases)-1]
				nb = bases[:len(bases)-1]
			}
			if depth != cap && depth < 3 {
				out = append(out, fmt.Sprintf("underflow: iteration step at %d of %s needs 3 values, the path produced %d", ip, b.Name, depth))
				continue
			}
			if depth != cap && base != cap && depth-2 < base {
				out = append(out, fmt.Sprintf("underflow: iteration step at %d of %s lost the object it iterates over", ip, b.Name))
				continue
			}
			push(nxt, base+1, bases, 'T')
			push(nxt, base, nb, 'F')
		}
	}
	return out
}

// scripts of the other corpora (distinct), by running their TLC modules
func corpusScripts(c *Check, modules []string, everyDefault int) []string {
	seen := map[string]bool{}
	var mu sync.Mutex
	var out []string
	n := 0
	for _, mod := range modules {
		every := everyDefault
		if mod == "MC_Scope" || mod == "MC_History" || mod == "MC_Alias" {
			every = 1 // small corpora are always taken whole
		}
		if mod == "MC_Expr" {
			every = 50 * everyDefault // millions of one-line scripts which differ in their operands only
		}
		n = 0
		inv := "Export"
		cfg := fmt.Sprintf("SPECIFICATION Spec\nCONSTANT Tier = \"%s\"\nCONSTANT Seed = %d\nINVARIANT %s\nCHECK_DEADLOCK FALSE\n", c.Tier, specSeed(), inv)
		res, err := runTLC(tlcOpts{Module: mod, Cfg: cfg, Timeout: 20 * time.Minute, OnRow: func(raw json.RawMessage) {
			var row Row
			if json.Unmarshal(raw, &row) != nil {
				return
			}
			var src string
			func() {
				defer func() { _ = recover() }()
				if mod == "MC_Expr" {
					src, _, _ = buildExprRow(&row)
				} else {
					src = rowSource(&row)
				}
			}()
			if src == "" {
				return
			}
			mu.Lock()
			defer mu.Unlock()
			if seen[src] {
				return
			}
			seen[src] = true
			n++
			if every > 1 && n%every != 0 {
				return
			}
			out = append(out, src)
		}})
		if res != nil {
			c.addTLC(res)
		}
		if err != nil {
			c.fail("corpus module " + mod + ": " + err.Error())
		}
	}
	return out
}

// programs whose last statement - of the main body and of a function body - is a construct which ends in a join
// point: what follows the last jump target is the end of the body
func tailFamily() []string {
	constructs := []string{
		`if ( C1 ) { t(1); }`, `if ( C1 ) { return true; }`, `if ( C1 ) { t(1); } else { t(2); }`, `if ( C1 ) { return 1; } else { return 2; }`,
		`if ( C1 ) { t(1); } else if ( C2 ) { t(2); }`, `while ( C1 ) { t(1); C1 = false; }`, `for ( i = 0; i < 2; i++ ) { t(i); }`,
		`foreach x in [1, 2] { t(x); }`, `foreach k, x in "ab" { t(k); }`, `foreach k, v in {"a": 1} { t(v); }`, `foreach x in 1..3 { if ( x == 2 ) { return x; } }`,
		`switch ( N ) { case 1 { t(1); } case 2, 3 { t(2); } default { t(3); } }`, `switch ( N ) { case 1 { return 1; } }`, `switch ( N ) { default { t(3); } case 1 { t(1); } }`,
		`C1 ? t(1) : t(2);`, `x = C1 ? 1 : 9;`, `if ( C1 ) { if ( C2 ) { t(1); } }`, `while ( C1 ) { if ( C2 ) { t(1); } C1 = false; }`,
		`foreach x in [1] { switch ( x ) { case 1 { t(1); } } }`, `if ( C1 && C2 ) { t(1); } `, `if ( true ) { t(1); }`, `if ( false ) { t(1); }`, `if ( 1 == 1 ) { t(1); } else { t(2); }`,
	}
	// hash literals which write a key more than once: the operand count is the number of pairs written
	out := []string{`return {"a": 1, "a": 1};`, `return {"a": 1, "a": 2, "b": 3};`, `x = [10, {"k": 5, "k": 5}]; return x;`, `return {1: 1, 1: 2, "1": 3, 1.0: 4};`,
		`function f() { return {"a": 1, "a": 1}; } return f();`, `foreach k, v in {"a": 1, "a": 1, "a": 1} { t(k); } return 1;`, `return {N: 1, N: 2};`, `return len({"a": 1, "a": 1}) + 1;`}
	// a return which ends a block that holds jumps of its own, with more code (and another return) behind the block:
	// every jump over the block still lands inside the body
	out = append(out,
		`if ( C1 ) { foreach x in [1, 2] { if ( x == 2 ) { t(x); } } return 1; } return 2;`,
		`if ( C1 ) { if ( C2 ) { t(1); } return 1; } return 2;`,
		`if ( C1 ) { while ( C2 ) { C2 = false; } return 1; } else { return 3; }`,
		`function f() { if ( C1 ) { if ( C2 ) { t(1); } return 1; } return 2; } return f();`,
		`function g(l) { if ( len(l) > 0 ) { found = false; foreach v in l { if ( v == 2 ) { found = true; } } return found; } return false; } return g([1, 2]);`,
		`switch ( N ) { case 1 { if ( C1 ) { t(1); } return 1; } default { return 2; } }`,
		`foreach x in [1] { if ( C1 ) { if ( C2 ) { t(2); } return x; } } return 0;`,
		`if ( C1 ) { return C2 ? 1 : 2; } if ( C2 ) { t(3); } return 4;`,
		`while ( C1 ) { if ( C2 ) { return 1; } C1 = false; } if ( C2 ) { return 2; } return 3;`)
	for _, cst := range constructs {
		out = append(out, cst, "x = 1; t(0); "+cst, "function f(N) { "+cst+" } f(1); "+cst, "function g() { t(5); "+cst+" } return g();")
	}
	return out
}

// programs around the 16-bit operand limits and with every low operand byte at the end of a function
func sizeFamily(tier string) []string {
	var out []string
	// integer literals around the inline limit
	for _, n := range []int{65533, 65534, 65535, 65536, 65537} {
		out = append(out, fmt.Sprintf("x = %d; return x + 1;", n))
	}
	// constant pools around 256: many distinct string constants
	for _, n := range []int{254, 255, 256, 257, 258} {
		var sb strings.Builder
		sb.WriteString("x = \"\";")
		for i := 0; i < n; i++ {
			fmt.Fprintf(&sb, " x = \"s%d\";", i)
		}
		sb.WriteString(" return x;")
		out = append(out, sb.String())
	}
	// calls, arrays and hashes whose count has every interesting low byte, as the LAST instruction of a function
	counts := []int{22, 23, 24, 25, 26, 279, 280, 281}
	if tier == "thorough" {
		counts = nil
		for i := 0; i <= 300; i++ {
			counts = append(counts, i)
		}
	}
	for _, n := range counts {
		args := make([]string, n)
		for i := range args {
			args[i] = fmt.Sprint(i % 7)
		}
		out = append(out, fmt.Sprintf("function f() { [%s]; } f(); return 1;", strings.Join(args, ", ")))
		out = append(out, fmt.Sprintf("function g() { t(%s); } return 2;", strings.Join(args, ", ")))
		if n <= 40 {
			kv := make([]string, n)
			for i := range kv {
				kv[i] = fmt.Sprintf("%d: %d", i, i)
			}
			out = append(out, fmt.Sprintf("function h() { {%s}; } return 3;", strings.Join(kv, ", ")))
		}
		out = append(out, fmt.Sprintf("function k() { %d; } return 4;", n))
	}
	// jumps around 65535: a block of known size before a forward and a backward jump
	sizes := []int{7280}
	if tier == "thorough" {
		sizes = []int{7278, 7279, 7280, 7281, 7282}
	}
	for _, stmts := range sizes {
		body := strings.Repeat("t(1); ", stmts) // 9 bytes each
		out = append(out, "if (F) { "+body+"} return 5;")
		out = append(out, "i = 0; while (i < 1) { i++; "+body+"} return 6;")
	}
	return out
}

func checkC18(c *Check) {
	c.rule = "every accepted script of the corpora MC_Flow, MC_Opt, MC_Scope, MC_History (every 8th distinct script, the small corpora whole; thorough: of the thorough-tier corpora, plus MC_Alias, MC_Cont, MC_Truth and every 400th script of MC_Expr) and a size family (integer literals and constant pools around the 8/16-bit boundaries, calls/arrays/hashes/literals whose operand low byte takes the value of every opcode as the last instruction of a function, bodies of 65.5k bytes in front of forward and backward jumps) and a tail family (23 constructs as the LAST statement of the main body and of function bodies, where the last jump target is the end of the body; 8 hash literals writing a key more than once; 9 programs in which a return ends a block holding jumps of its own, with more code behind the block) is prepared optimised and unoptimised; the programs as the VM will run them (verif accessors) are explored by TLC on ALL control-flow paths (MC_Verify); every report is re-established by an independent decoder/abstract interpreter in Go before it counts; non-trivial = a prepared program with at least one jump or call; distinct = distinct (script, mode)"
	c.assumptions = []string{"calls are taken to push one value (the statement's proviso)", "abstract stack heights saturate at 12", "the verif accessors return the byte slices the VM executes"}
	// the model compiler (EFCompiler): well-formed on every enumerated program (TLC), and byte-for-byte
	// what the real compiler emits (drift is reported, it is not a verdict)
	drift, compared := 0, 0
	var driftMu sync.Mutex
	firstDrift := ""
	runRows(c, "MC_Compile", stdCfg(c.Tier, "ModelWellFormed", "FoldsSafe", "OptimisedWellFormed"), func(row *Row) {
		var mp modelProg
		if err := json.Unmarshal(row.Raw, &mp); err != nil || !mp.OK {
			return
		}
		src := (&renderer{elseIf: true}).program(mp.Prog)
		why := compareCompile(&mp, src)
		driftMu.Lock()
		compared++
		if why != "" {
			drift++
			if firstDrift == "" {
				firstDrift = truncate(src, 200) + " :: " + truncate(why, 400)
			}
		}
		driftMu.Unlock()
	})
	c.extra["model_compiler_programs_compared"] = compared
	c.extra["model_compiler_drift"] = drift
	if drift > 0 {
		fmt.Printf("\nNOTE: EFCompiler and the real compiler emit different code for %d of %d programs (drift of the model, not a verdict), e.g. %s\n", drift, compared, firstDrift)
	}
	every := 8
	mods := []string{"MC_Flow", "MC_Opt", "MC_Scope", "MC_History"}
	if c.Tier == "thorough" {
		// (fitted: the thorough corpora hold millions of scripts; about 50 000 programs are what MC_Verify explores in ten minutes)
		every = 8
		mods = append(mods, "MC_Alias", "MC_Cont", "MC_Truth", "MC_Expr")
	}
	if m := os.Getenv("VERIF_C18_MODULES"); m != "" { // debugging aid
		mods = strings.Split(m, ",")
	}
	scripts := corpusScripts(c, mods, every)
	// the witnesses of the recorded finding "a value-less construct used as an operand"
	scripts = append(scripts, `x = y++; return x;`, `t(a = 1); return 2;`, `r = 1 + if ( true ) { } ; return r;`)
	scripts = append(scripts, tailFamily()...)
	if os.Getenv("VERIF_C18_NOSIZE") == "" {
		scripts = append(scripts, sizeFamily(c.Tier)...)
	}
	var progs []*progDump
	var sb strings.Builder
	rejected := 0
	for _, s := range scripts {
		for _, opt := range []bool{true, false} {
			d, err := dumpPrepared(s, opt)
			if err != nil {
				rejected++
				continue
			}
			d.ID = len(progs) + 1
			progs = append(progs, d)
			b, _ := json.Marshal(d)
			sb.Write(b)
			sb.WriteByte('\n')
			nontrivial := false
			for _, body := range d.Bodies {
				for _, x := range body.Code {
					if x == 1 || x == 2 || x == 3 {
						nontrivial = true
					}
				}
			}
			c.count(d.mode+"|"+s, nontrivial)
			if len(c.samples) < 4 {
				c.sample(map[string]interface{}{"script": truncate(s, 300), "mode": d.mode, "bodies": len(d.Bodies), "main_bytes": len(d.Bodies[0].Code), "constants": len(d.Consts)})
			}
		}
	}
	c.extra["programs"] = len(progs)
	c.extra["scripts_rejected_by_prepare"] = rejected
	if len(progs) == 0 {
		c.fail("no programs to verify")
		return
	}
	if f := os.Getenv("VERIF_C18_DUMP"); f != "" { // debugging aid
		_ = os.WriteFile(f, []byte(sb.String()), 0o644)
	}
	cfg := "SPECIFICATION Spec\nINVARIANT IpOnBoundary\nINVARIANT Export\nCHECK_DEADLOCK FALSE\n"
	res, err := runTLC(tlcOpts{Module: "MC_Verify", Cfg: cfg, Timeout: 40 * time.Minute, Extra: map[string]string{"progs.ndjson": sb.String()},
		OnRow: func(raw json.RawMessage) {
			var r struct {
				ID    int    `json:"id"`
				Body  string `json:"body"`
				IP    int    `json:"ip"`
				Depth int    `json:"depth"`
				Why   string `json:"why"`
			}
			if json.Unmarshal(raw, &r) != nil || r.ID < 1 || r.ID > len(progs) {
				c.fail("bad report row " + string(raw))
				return
			}
			d := progs[r.ID-1]
			ok, detail := confirmBad(d, r.Body, r.IP, r.Why)
			if !ok {
				c.fail(fmt.Sprintf("TLC reports %q at %s:%d of %q [%s] but the independent re-check does not confirm it (%s)", r.Why, r.Body, r.IP, truncate(d.script, 200), d.mode, detail))
				return
			}
			dis := &Disagreement{Kind: "malformed-program", Script: d.script, Mode: d.mode, Expected: "well-formed machine code on every path",
				Got:    fmt.Sprintf("%s (body %s, offset %d, abstract stack height %d): %s", r.Why, r.Body, r.IP, r.Depth, detail),
				Detail: map[string]interface{}{"program": d}}
			if strings.HasPrefix(r.Why, "underflow") && valuelessOperand(d.script) {
				dis.Kind = "underflow-static"
				dis.Detail["cause"] = "valueless-operand"
			}
			c.disagree(dis)
		}})
	if res != nil {
		c.addTLC(res)
		c.mu.Lock()
		c.traces += int64(len(progs)) // recorded artifacts of the implementation checked by the specification
		c.mu.Unlock()
	}
	if err != nil {
		c.fail(err.Error())
		return
	}
	if res.Violation != "" {
		c.fail("MC_Verify: " + res.Violation + "\n" + lastLines(res.Output, 30))
	}
}

func truncate(s string, n int) string {
	if len(s) > n {
		return s[:n] + "..."
	}
	return s
}
