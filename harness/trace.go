package main

// Recording executions of the real VM through the verif step hook, for
// validation against Trace_VM.tla.

import (
	"encoding/json"
	"fmt"
	"os"
	"regexp"
	"strconv"
	"strings"
	"sync"
	"sync/atomic"
	"time"

	"github.com/skx/evalfilter/v2/code"
	"github.com/skx/evalfilter/v2/object"
	"github.com/skx/evalfilter/v2/vm"
)

type traceEvent struct {
	E    string          `json:"e"`
	P    int             `json:"p,omitempty"`
	FD   int             `json:"fd"`
	Body string          `json:"body,omitempty"`
	IP   int             `json:"ip"`
	Op   int             `json:"op"`
	Arg  int             `json:"arg"`
	SD   int             `json:"sd"`
	OK   bool            `json:"ok"`
	Tos  json.RawMessage `json:"tos,omitempty"` // the value on top of the frame's stack before the instruction
}

var unknownVal = json.RawMessage(`["U"]`)

// encodeObject renders an implementation object in the value encoding of the specification,
// or ["U"] where the trace specification does not follow the value (floats, hashes, regexps, big things)
func encodeObject(o object.Object, depth int) json.RawMessage {
	switch v := o.(type) {
	case *object.Integer:
		if v.Value > 1000000000 || v.Value < -1000000000 {
			return unknownVal
		}
		return json.RawMessage(fmt.Sprintf(`["I",%d]`, v.Value))
	case *object.String:
		rs := []rune(v.Value)
		if len(rs) > 40 {
			return unknownVal
		}
		cps := make([]string, len(rs))
		for i, r := range rs {
			cps[i] = strconv.Itoa(int(r))
		}
		return json.RawMessage(`["S",[` + strings.Join(cps, ",") + `]]`)
	case *object.Boolean:
		return json.RawMessage(fmt.Sprintf(`["B",%v]`, v.Value))
	case *object.Null:
		return json.RawMessage(`["N"]`)
	case *object.Array:
		if len(v.Elements) > 6 || depth > 2 {
			return unknownVal
		}
		parts := make([]string, len(v.Elements))
		for i, e := range v.Elements {
			parts[i] = string(encodeObject(e, depth+1))
			if parts[i] == string(unknownVal) {
				return unknownVal
			}
		}
		return json.RawMessage(`["A",[` + strings.Join(parts, ",") + `]]`)
	}
	return unknownVal
}

// tracer is attached to one machine
type tracer struct {
	names       map[string]string // bytecode identity -> body name
	events      []traceEvent
	cancelAt    int64 // cancel the context when this many instructions have been logged (0: never)
	ctx         *resetCtx
	n           int64
	limit       int64 // stop recording (and cancel) after this many steps, as a safety net
	cancelledAt int64
}

var tracers = struct {
	m  atomic.Value // map[*vm.VM]*tracer, copy-on-write; writers hold mu
	mu sync.Mutex
}{}

func init() {
	tracers.m.Store(map[*vm.VM]*tracer{})
	prev := vm.VerifStepHook
	vm.VerifStepHook = func(m *vm.VM, ip int, op code.Opcode, arg int) {
		if prev != nil {
			prev(m, ip, op, arg)
		}
		t := tracers.m.Load().(map[*vm.VM]*tracer)[m]
		if t == nil {
			return
		}
		t.n++
		if t.cancelledAt > 0 && t.n > t.cancelledAt+2000 {
			// the machine goes on and on after the cancellation: stop it from the inside
			// (Execute recovers the panic; the trace already shows the instructions dispatched after the cancel)
			panic("verif: still dispatching instructions 2000 steps after the cancellation")
		}
		body := t.names[bytecodeIdentity(m.VerifBytecode())]
		tos := unknownVal
		if top := m.VerifStackTop(); top != nil {
			tos = encodeObject(top, 0)
		}
		t.events = append(t.events, traceEvent{E: "step", FD: m.VerifCalls(), Body: body, IP: ip, Op: int(op), Arg: arg, SD: m.VerifStackDepth(), Tos: tos})
		if (t.cancelAt > 0 && t.n == t.cancelAt) || (t.limit > 0 && t.n == t.limit) {
			t.events = append(t.events, traceEvent{E: "cancel"})
			t.ctx.cancel()
			t.cancelledAt = t.n
		}
	}
}

func attachTracer(m *Machine) *tracer {
	mc := m.E.VerifMachine()
	t := &tracer{names: map[string]string{}, ctx: m.ctx, limit: 200000}
	t.names[bytecodeIdentity(mc.VerifBytecode())] = "main"
	for name, f := range mc.VerifFunctions() {
		t.names[bytecodeIdentity(f.Bytecode)] = name
	}
	tracers.mu.Lock()
	defer tracers.mu.Unlock()
	old := tracers.m.Load().(map[*vm.VM]*tracer)
	nm := make(map[*vm.VM]*tracer, len(old)+1)
	for k, v := range old {
		nm[k] = v
	}
	nm[mc] = t
	tracers.m.Store(nm)
	return t
}

func detachTracer(m *Machine) {
	mc := m.E.VerifMachine()
	tracers.mu.Lock()
	defer tracers.mu.Unlock()
	old := tracers.m.Load().(map[*vm.VM]*tracer)
	nm := make(map[*vm.VM]*tracer, len(old))
	for k, v := range old {
		if k != mc {
			nm[k] = v
		}
	}
	tracers.m.Store(nm)
}

// tracedRun performs one run, cancelling the context after cancelAt instructions
// (0: never; -1: before the run starts), and returns the events of the run.
func (t *tracer) tracedRun(m *Machine, progID int, obj interface{}, cancelAt int64) ([]traceEvent, Outcome) {
	t.events = []traceEvent{{E: "run", P: progID}}
	t.n = 0
	t.cancelledAt = 0
	t.cancelAt = cancelAt
	m.ctx.reset()
	if cancelAt < 0 {
		t.cancelAt = 0
		t.events = append(t.events, traceEvent{E: "cancel"})
		m.ctx.cancel()
	}
	o := m.exec(obj)
	t.events = append(t.events, traceEvent{E: "end", OK: o.Err == nil && o.Panic == nil})
	return t.events, o
}

var reLineVar = regexp.MustCompile(`(?m)^/?\\?\s*l = (\d+)`)

// validateTrace runs Trace_VM over the programs and the concatenated events.
// It returns the number of lines accepted, the total, and the invariant violated (if any).
func validateTrace(c *Check, progs []*progDump, events []traceEvent, invariants []string) (reached, total int, violated string, err error) {
	var pb, tb strings.Builder
	for _, d := range progs {
		b, _ := json.Marshal(d)
		pb.Write(b)
		pb.WriteByte('\n')
	}
	for _, e := range events {
		b, _ := json.Marshal(e)
		tb.Write(b)
		tb.WriteByte('\n')
	}
	if f := os.Getenv("VERIF_TRACE_DUMP"); f != "" { // debugging aid
		_ = os.WriteFile(f+".progs", []byte(pb.String()), 0o644)
		_ = os.WriteFile(f+".trace", []byte(tb.String()), 0o644)
	}
	cfg := "SPECIFICATION TraceSpec\n"
	for _, inv := range invariants {
		cfg += "INVARIANT " + inv + "\n"
	}
	cfg += "POSTCONDITION Post\nCHECK_DEADLOCK FALSE\n"
	total = len(events) + 1
	res, rerr := runTLC(tlcOpts{Module: "Trace_VM", Cfg: cfg, Workers: 1, Timeout: 30 * time.Minute,
		Extra: map[string]string{"progs.ndjson": pb.String(), "trace.ndjson": tb.String()},
		OnRow: func(raw json.RawMessage) {
			var r struct {
				Reached int `json:"reached"`
			}
			if json.Unmarshal(raw, &r) == nil {
				reached = r.Reached
			}
		}})
	if res != nil {
		c.addTLC(res)
	}
	if rerr != nil {
		return reached, total, "", rerr
	}
	if res.Violation != "" {
		// the last "l = n" of the counterexample is the line after the offending event
		ms := reLineVar.FindAllStringSubmatch(res.Output, -1)
		if len(ms) > 0 {
			reached, _ = strconv.Atoi(ms[len(ms)-1][1])
		}
		return reached, total, res.Violation, nil
	}
	return reached, total, "", nil
}

func describeEvent(e traceEvent) string {
	b, _ := json.Marshal(e)
	return string(b)
}

var _ = fmt.Sprint
