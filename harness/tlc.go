package main

// Driving TLC: every run happens in a private scratch directory (removed
// afterwards) with a time-out; ROW lines printed by the specification are
// streamed to the caller; the state counts are parsed from TLC's summary.

import (
	"bufio"
	"context"
	"encoding/json"
	"fmt"
	"io"
	"os"
	"os/exec"
	"path/filepath"
	"regexp"
	"strconv"
	"strings"
	"time"
)

const tlaJar = "/opt/veriftools/tla/tla2tools.jar:/opt/veriftools/tla/CommunityModules-deps.jar"

type tlcResult struct {
	Distinct  int64
	Generated int64
	Rows      int64
	Wall      float64
	Violation string // invariant / property TLC reported as violated ("" if none)
	Output    string // tail of the output (diagnostics)
	Cmd       string
}

type tlcOpts struct {
	Module   string // e.g. "MC_Expr"
	Cfg      string // text of the .cfg
	Workers  int    // 0 = all cores
	Timeout  time.Duration
	Simulate string // e.g. "num=1000" ("" = model checking)
	Depth    int
	Seed     int64
	Extra    map[string]string // extra files to place in the scratch dir (name -> content)
	OnRow    func(raw json.RawMessage)
	Deque    bool // depth-first queue (trace validation)
}

var (
	reStates = regexp.MustCompile(`^(\d+) states generated, (\d+) distinct states found`)
	reInv    = regexp.MustCompile(`^Error: Invariant (\S+) is violated`)
	reProp   = regexp.MustCompile(`^Error: (Temporal properties were violated|Action property \S+ is violated|Deadlock reached)`)
	reErr    = regexp.MustCompile(`^Error: `)
)

func specDir() string {
	if d := os.Getenv("VERIF_SPEC_DIR"); d != "" {
		return d
	}
	return "/verif/spec"
}

func runTLC(o tlcOpts) (*tlcResult, error) {
	scratch, err := os.MkdirTemp("", "eftlc-")
	if err != nil {
		return nil, err
	}
	defer os.RemoveAll(scratch)
	mods, _ := filepath.Glob(filepath.Join(specDir(), "*.tla"))
	for _, m := range mods {
		b, err := os.ReadFile(m)
		if err != nil {
			return nil, err
		}
		if err := os.WriteFile(filepath.Join(scratch, filepath.Base(m)), b, 0o644); err != nil {
			return nil, err
		}
	}
	for name, content := range o.Extra {
		if err := os.WriteFile(filepath.Join(scratch, name), []byte(content), 0o644); err != nil {
			return nil, err
		}
	}
	cfg := filepath.Join(scratch, o.Module+".cfg")
	if err := os.WriteFile(cfg, []byte(o.Cfg), 0o644); err != nil {
		return nil, err
	}
	workers := o.Workers
	if workers <= 0 {
		workers = 16
	}
	if o.Timeout == 0 {
		o.Timeout = 10 * time.Minute
	}
	// (TLC leaves a directory per run in java.io.tmpdir: keep it inside the scratch directory, removed with it)
	args := []string{"-XX:+UseParallelGC", "-Xss512m", "-Djava.io.tmpdir=" + scratch}
	if o.Deque {
		args = append(args, "-Dtlc2.tool.queue.IStateQueue=StateDeque")
	}
	args = append(args, "-cp", tlaJar, "tlc2.TLC", "-workers", strconv.Itoa(workers),
		"-metadir", filepath.Join(scratch, "meta"), "-config", cfg)
	if o.Simulate != "" {
		args = append(args, "-simulate", o.Simulate)
		if o.Depth > 0 {
			args = append(args, "-depth", strconv.Itoa(o.Depth))
		}
	}
	if o.Seed != 0 {
		args = append(args, "-seed", strconv.FormatInt(o.Seed, 10))
	}
	args = append(args, filepath.Join(scratch, o.Module+".tla"))

	ctx, cancel := context.WithTimeout(context.Background(), o.Timeout)
	defer cancel()
	cmd := exec.CommandContext(ctx, "java", args...)
	cmd.Dir = scratch
	cmd.Env = append(os.Environ(), "JAVA_TOOL_OPTIONS=")
	stdout, err := cmd.StdoutPipe()
	if err != nil {
		return nil, err
	}
	cmd.Stderr = cmd.Stdout
	res := &tlcResult{Cmd: "java " + strings.Join(args, " ")}
	start := time.Now()
	if err := cmd.Start(); err != nil {
		return nil, err
	}
	var tail []string
	sc := bufio.NewScanner(stdout)
	sc.Buffer(make([]byte, 1<<20), 1<<28)
	const pfx = `<<"ROW", `
	for sc.Scan() {
		line := sc.Text()
		if strings.HasPrefix(line, pfx) && strings.HasSuffix(line, ">>") {
			q := line[len(pfx) : len(line)-2]
			s, err := strconv.Unquote(q)
			if err != nil {
				s = strings.ReplaceAll(strings.ReplaceAll(q[1:len(q)-1], `\"`, `"`), `\\`, `\`)
			}
			res.Rows++
			if o.OnRow != nil {
				o.OnRow(json.RawMessage(s))
			}
			continue
		}
		if m := reStates.FindStringSubmatch(line); m != nil {
			res.Generated, _ = strconv.ParseInt(m[1], 10, 64)
			res.Distinct, _ = strconv.ParseInt(m[2], 10, 64)
		}
		if m := reInv.FindStringSubmatch(line); m != nil && res.Violation == "" {
			res.Violation = m[1]
		} else if m := reProp.FindStringSubmatch(line); m != nil && res.Violation == "" {
			res.Violation = m[1]
		}
		tail = append(tail, line)
		if len(tail) > 400 {
			tail = tail[len(tail)-300:]
		}
	}
	if sc.Err() != nil {
		tail = append(tail, "harness: reading TLC output failed: "+sc.Err().Error())
	}
	_, _ = io.Copy(io.Discard, stdout) // never leave TLC blocked on a full pipe
	werr := cmd.Wait()
	res.Wall = time.Since(start).Seconds()
	res.Output = strings.Join(tail, "\n")
	if ctx.Err() != nil {
		return res, fmt.Errorf("TLC timed out after %v", o.Timeout)
	}
	if res.Violation != "" {
		return res, nil
	}
	if werr != nil {
		// any other TLC failure (parse error, evaluation error) is a tool failure
		for _, l := range tail {
			if reErr.MatchString(l) {
				return res, fmt.Errorf("TLC failed: %s\n%s", l, lastLines(res.Output, 25))
			}
		}
		return res, fmt.Errorf("TLC failed: %v\n%s", werr, lastLines(res.Output, 25))
	}
	if o.Simulate == "" && res.Distinct == 0 {
		return res, fmt.Errorf("TLC produced no state count\n%s", lastLines(res.Output, 25))
	}
	return res, nil
}

func lastLines(s string, n int) string {
	ls := strings.Split(s, "\n")
	if len(ls) > n {
		ls = ls[len(ls)-n:]
	}
	return strings.Join(ls, "\n")
}
