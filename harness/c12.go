package main

// C12: the real parser's tree for the minimally and the fully bracketed text
// of every enumerated expression must be the tree the grammar of EFParser
// assigns to it.

import (
	"encoding/json"
	"fmt"
	"reflect"
	"strings"

	"github.com/skx/evalfilter/v2/ast"
	"github.com/skx/evalfilter/v2/lexer"
	"github.com/skx/evalfilter/v2/parser"
)

func init() {
	checks["C12"] = checkC12
}

// convert the implementation's expression tree to the encoding of EFParser
func astToTree(n ast.Node) interface{} {
	switch x := n.(type) {
	case *ast.Identifier:
		return []interface{}{"id", x.Value}
	case *ast.InfixExpression:
		switch x.Operator {
		case "+=", "-=", "*=", "/=":
			name := "?"
			if id, ok := x.Left.(*ast.Identifier); ok {
				name = id.Value
			} else {
				return []interface{}{"casg-nonident", x.Operator, astToTree(x.Left), astToTree(x.Right)}
			}
			return []interface{}{"asg", x.Operator, name, astToTree(x.Right)}
		}
		return []interface{}{"bin", x.Operator, astToTree(x.Left), astToTree(x.Right)}
	case *ast.PrefixExpression:
		op := x.Operator
		if op == "√" {
			op = "sqrt"
		}
		return []interface{}{"un", op, astToTree(x.Right)}
	case *ast.IndexExpression:
		return []interface{}{"idx", astToTree(x.Left), astToTree(x.Index)}
	case *ast.CallExpression:
		args := []interface{}{}
		for _, a := range x.Arguments {
			args = append(args, astToTree(a))
		}
		return []interface{}{"call", x.Function.String(), args}
	case *ast.TernaryExpression:
		return []interface{}{"tern", astToTree(x.Condition), astToTree(x.IfTrue), astToTree(x.IfFalse)}
	case *ast.AssignStatement:
		return []interface{}{"asg", "=", x.Name.Value, astToTree(x.Value)}
	case *ast.ExpressionStatement:
		return astToTree(x.Expression)
	case *ast.IntegerLiteral:
		return []interface{}{"int", x.Value}
	case *ast.StringLiteral:
		return []interface{}{"str", x.Value}
	case nil:
		return []interface{}{"nil"}
	}
	return []interface{}{fmt.Sprintf("%T", n)}
}

func parseOne(text string) (tree interface{}, err error) {
	defer func() {
		if r := recover(); r != nil {
			err = fmt.Errorf("parser panicked: %v", r)
		}
	}()
	p := parser.New(lexer.New(text))
	prog, perr := p.Parse()
	if perr != nil {
		return nil, perr
	}
	if prog == nil || len(prog.Statements) != 1 {
		n := 0
		if prog != nil {
			n = len(prog.Statements)
		}
		return nil, fmt.Errorf("%d statements, want 1", n)
	}
	return astToTree(prog.Statements[0]), nil
}

func tokensOf(raw json.RawMessage) []string {
	var ts []string
	_ = json.Unmarshal(raw, &ts)
	for i, t := range ts {
		if t == "sqrt" {
			ts[i] = "√"
		}
	}
	return ts
}

func checkC12(c *Check) {
	c.rule = "MC_Prec: every ordered pair of the 18 binary operators in both groupings; every triple in all five groupings (quick: a sixth); thorough: all triples and every chain of four operators in all fourteen groupings; 24 shapes mixing a binary operator with each prefix operator, index, call and ternary (ternary as condition / arm / operand / index target / argument); plain and compound assignments whose right-hand side is a binary, nested binary, ternary or prefix-index expression; each tree printed with minimal parenthesisation, with full parenthesisation and with minimal grouping but every identifier in parentheses of its own; 51 texts with a ternary nested without parentheses (in the else arm, the then arm, after an operator, inside a call, and inside an argument list, an array literal, a hash literal or an index written in an arm; the outer then-arm starting with a name, a bracket, a prefix operator, a call, an index) which must be rejected; TLC checks that the model grammar (EFParser) reads both back as the same tree and that regrouping changes the minimal text; the real parser's tree (converted by a type switch over the exported node types) must equal the tree for both texts; distinct = distinct minimal text"
	c.assumptions = []string{"ternaries nested inside ternaries (even bracketed) are not generated; '/' only follows identifiers, ')' and ']'"}
	type precRow struct {
		K    string          `json:"k"`
		Tree json.RawMessage `json:"tree"`
		Min  json.RawMessage `json:"min"`
		Full json.RawMessage `json:"full"`
		Leaf json.RawMessage `json:"leafy"`
		Stmt string          `json:"stmt"`
	}
	cfg := stdCfg(c.Tier, "RoundTrip", "RegroupDiffers", "NestedRejected")
	runRows(c, "MC_Prec", cfg, func(row *Row) {
		var r precRow
		if err := json.Unmarshal(row.Raw, &r); err != nil {
			c.fail("bad row: " + err.Error())
			return
		}
		var want interface{}
		_ = json.Unmarshal(r.Tree, &want)
		minText := strings.Join(tokensOf(r.Min), " ") + ";"
		fullText := strings.Join(tokensOf(r.Full), " ") + ";"
		leafText := strings.Join(tokensOf(r.Leaf), " ") + ";"
		c.count(minText, true)
		if r.Stmt == "reject" {
			// a nested ternary: the parser must refuse the text
			if got, err := parseOne(minText); err == nil {
				gb, _ := json.Marshal(got)
				c.disagree(&Disagreement{Kind: "nested-ternary-accepted", Script: minText, Expected: "rejected: nested ternaries are not part of the language", Got: string(gb), Row: row.Raw})
			}
			return
		}
		c.sample(map[string]interface{}{"minimal": minText, "full": fullText, "tree": want})
		for _, v := range []struct{ style, text string }{{"minimal", minText}, {"full", fullText}, {"leaves-bracketed", leafText}} {
			got, err := parseOne(v.text)
			if err != nil {
				c.disagree(&Disagreement{Kind: "parse-rejected", Script: v.text, Mode: v.style, Expected: string(r.Tree), Got: err.Error(), Row: row.Raw})
				continue
			}
			gb, _ := json.Marshal(got)
			var gotNorm interface{}
			_ = json.Unmarshal(gb, &gotNorm)
			if !reflect.DeepEqual(gotNorm, want) {
				c.disagree(&Disagreement{Kind: "grouping", Script: v.text, Mode: v.style, Expected: string(r.Tree), Got: string(gb), Row: row.Raw})
			}
		}
	})
}
