package main

// Walking the real parser's AST (exported node types) to recognise the
// recorded known finding "a value-less construct used as an operand".

import (
	"github.com/skx/evalfilter/v2/ast"
	"github.com/skx/evalfilter/v2/lexer"
	"github.com/skx/evalfilter/v2/parser"
)

func valueless(n ast.Node) bool {
	switch x := n.(type) {
	case *ast.AssignStatement, *ast.PostfixExpression, *ast.IfExpression, *ast.WhileStatement, *ast.ForeachStatement,
		*ast.SwitchExpression, *ast.FunctionDefinition, *ast.LocalVariable:
		return true
	case *ast.InfixExpression:
		switch x.Operator {
		case "+=", "-=", "*=", "/=":
			return true
		}
	}
	return false
}

// valuelessOperand: does the script use a statement-like construct where a value is needed?
func valuelessOperand(script string) (found bool) {
	defer func() {
		if recover() != nil {
			found = false
		}
	}()
	p := parser.New(lexer.New(script))
	prog, err := p.Parse()
	if err != nil || prog == nil {
		return false
	}
	// "y++" is parsed as the statement "y" followed by the statement "++": when what precedes the
	// "++" is not that bare identifier (as in "x = y++"), the increment has no operand to consume
	postfixAlone := func(stmts []ast.Statement) {
		for i, st := range stmts {
			es, ok := st.(*ast.ExpressionStatement)
			if !ok {
				continue
			}
			pf, ok := es.Expression.(*ast.PostfixExpression)
			if !ok {
				continue
			}
			good := false
			if i > 0 {
				if prev, ok := stmts[i-1].(*ast.ExpressionStatement); ok {
					if id, ok := prev.Expression.(*ast.Identifier); ok && id.Value == pf.Token.Literal {
						good = true
					}
				}
			}
			if !good {
				found = true
			}
		}
	}
	var walk func(n ast.Node, needValue bool)
	walk = func(n ast.Node, needValue bool) {
		if n == nil || found {
			return
		}
		if needValue && valueless(n) {
			found = true
			return
		}
		switch x := n.(type) {
		case *ast.Program:
			postfixAlone(x.Statements)
			for _, s := range x.Statements {
				walk(s, false)
			}
		case *ast.BlockStatement:
			if x == nil {
				return
			}
			postfixAlone(x.Statements)
			for _, s := range x.Statements {
				walk(s, false)
			}
		case *ast.ExpressionStatement:
			walk(x.Expression, false)
		case *ast.ReturnStatement:
			walk(x.ReturnValue, true)
		case *ast.AssignStatement:
			walk(x.Value, true)
		case *ast.InfixExpression:
			walk(x.Left, true)
			walk(x.Right, true)
		case *ast.PrefixExpression:
			walk(x.Right, true)
		case *ast.TernaryExpression:
			walk(x.Condition, true)
			walk(x.IfTrue, needValue)
			walk(x.IfFalse, needValue)
		case *ast.IndexExpression:
			walk(x.Left, true)
			walk(x.Index, true)
		case *ast.CallExpression:
			for _, a := range x.Arguments {
				walk(a, true)
			}
		case *ast.ArrayLiteral:
			for _, a := range x.Elements {
				walk(a, true)
			}
		case *ast.HashLiteral:
			for k, v := range x.Pairs {
				walk(k, true)
				walk(v, true)
			}
		case *ast.IfExpression:
			walk(x.Condition, true)
			walk(x.Consequence, false)
			if x.Alternative != nil {
				walk(x.Alternative, false)
			}
		case *ast.WhileStatement:
			walk(x.Condition, true)
			walk(x.Body, false)
		case *ast.ForeachStatement:
			walk(x.Value, true)
			walk(x.Body, false)
		case *ast.SwitchExpression:
			walk(x.Value, true)
			for _, ch := range x.Choices {
				for _, e := range ch.Expr {
					walk(e, true)
				}
				walk(ch.Block, false)
			}
		case *ast.FunctionDefinition:
			walk(x.Body, false)
		}
	}
	walk(prog, false)
	return found
}
