package main

func init() {
	checks["C16"] = checkC16
	checks["C15"] = checkC15
}

// C16: containers are ordered and total.
func checkC16(c *Check) {
	c.rule = "MC_Cont: arrays and strings of length 0-4 (mixed types, nested containers, multi-byte text) x 16 indexes (-2..255, non-integers); ranges a..b for a,b in -2..4; hashes over 9 keys incl. 1 / 1.0 / \"1\" / 1.5 / \"1.5\" x every lookup key and 4 unusable keys; len, type, keys, printed form, membership of 13 candidate elements; foreach with and without index, and nested over the same container; an array after sort(), reverse() and an iteration derived something from it; each as literal, variable and field, each run twice on one evaluator; plus the in / .. / [] cells of MC_Expr; non-trivial = expectation is a value or ERR; for hashes with coinciding printed keys the order is unconstrained but must repeat"
	c.assumptions = []string{"iteration/print order among hash keys with equal printed form is unspecified but must be the same every time it is observed"}
	runRows(c, "MC_Cont", stdCfg(c.Tier, "IndexTotal", "VisitsAll", "Repeatable"), func(row *Row) {
		replayProgRow(c, row, progOpts{})
	})
	runExprRows(c, func(ops []string) bool {
		for _, o := range ops {
			if o == "in" || o == ".." || o == "[]" {
				return true
			}
		}
		return false
	})
}

// C15: values are copied, never shared.
func checkC15(c *Check) {
	c.rule = "MC_Alias: 16 data-flow shapes (a copy of a field taken before the field name itself is mutated, alone and inside a container; assignment either way, parameter, array element, hash value, foreach variable over literals and over variables, object field, re-initialised variable, literal in a function called twice, a copy taken between two mutations, a copy put in a container between mutations, literal in a loop body, element passed as argument) x 9 source literals (5, 0, 65534, 65535, 70000, -3, 1.5, 2.5, \"s\") x 6 mutations (++ -- += -= *= /=) (thorough: 26 source literals incl. more boundaries, empty and longer strings and a boolean, and every mutation followed by every second mutation of the same variable), each executed three times on one evaluator with every holder read afterwards; non-trivial = expectation is a value or ERR"
	c.assumptions = []string{"value semantics as defined by EFSemantics: mutation rebinds the named variable to a new value"}
	runRows(c, "MC_Alias", stdCfg(c.Tier, "LiteralStable"), func(row *Row) {
		replayProgRow(c, row, progOpts{})
	})
}
