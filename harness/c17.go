package main

// C17: contracts of the built-in functions.

import (
	"encoding/json"
	"fmt"
	"math/big"
	"os"
	"sort"
	"strings"
	"time"

	"github.com/skx/evalfilter/v2/object"
)

func init() {
	checks["C17"] = checkC17
}

// sortLaws: the result of sort/reverse is a permutation of the input, ordered (by printed form,
// or numerically when every element is a number), and the input is unchanged
func sortLaws(c *Check, row *Row, name string, ci bool) {
	src := rowSource(row)
	for _, opt := range []bool{true, false} {
		m, err := newMachine(src, nil, nil, opt, nil)
		if err != nil {
			continue
		}
		o := m.exec(nil)
		if o.Err != nil || o.Out == nil {
			continue
		}
		res, ok := o.Out.(*object.Array)
		if !ok || len(res.Elements) != 2 {
			continue
		}
		sorted, ok1 := res.Elements[0].(*object.Array)
		input, ok2 := res.Elements[1].(*object.Array)
		if !ok1 || !ok2 {
			continue // null for wrong arguments: the specification row covers it
		}
		key := func(o object.Object) string {
			s := o.Inspect()
			if ci {
				s = strings.ToLower(s)
			}
			return s
		}
		a := []string{}
		b := []string{}
		for _, e := range sorted.Elements {
			a = append(a, describe(e))
		}
		for _, e := range input.Elements {
			b = append(b, describe(e))
		}
		as, bs := append([]string{}, a...), append([]string{}, b...)
		sort.Strings(as)
		sort.Strings(bs)
		if strings.Join(as, "|") != strings.Join(bs, "|") {
			c.disagree(&Disagreement{Kind: "sort-not-a-permutation", Script: src, Expected: "a permutation of " + strings.Join(b, ", "), Got: strings.Join(a, ", "), Row: row.Raw})
			continue
		}
		byPrint, byNumber, allNum := true, true, true
		for i := 0; i+1 < len(sorted.Elements); i++ {
			x, y := sorted.Elements[i], sorted.Elements[i+1]
			kx, ky := key(x), key(y)
			if name == "sort" && kx > ky || name == "reverse" && kx < ky {
				byPrint = false
			}
			fx, okx := numOf(x)
			fy, oky := numOf(y)
			if !okx || !oky {
				allNum = false
			} else if name == "sort" && fx > fy || name == "reverse" && fx < fy {
				byNumber = false
			}
		}
		if !(byPrint || (allNum && byNumber)) {
			c.disagree(&Disagreement{Kind: "sort-not-ordered", Script: src, Expected: "ordered by printed form (or numerically)", Got: strings.Join(a, ", "), Row: row.Raw})
		}
		// the input literal, re-read: unchanged order
		var arr Val
		var probe struct {
			Arr json.RawMessage `json:"arr"`
		}
		if json.Unmarshal(row.Raw, &probe) == nil {
			arr = mustVal(probe.Arr)
			if ok, why := arr.matches(input); !ok {
				c.disagree(&Disagreement{Kind: "sort-changed-its-input", Script: src, Expected: arr.String(), Got: describe(input) + " (" + why + ")", Row: row.Raw})
			}
		}
	}
}

func numOf(o object.Object) (float64, bool) {
	switch v := o.(type) {
	case *object.Integer:
		return float64(v.Value), true
	case *object.Float:
		return v.Value, true
	}
	return 0, false
}

// min / max / between over integers beyond what TLC's 32-bit arithmetic holds: the oracle is math/big
// (trusted); the numbers are written as literals, a negative one as a negated literal
func bigMinMax(c *Check) {
	vals := []string{"9223372036854775807", "9223372036854775806", "4611686018427387904", "9007199254740993", "2147483648", "1", "0"}
	var all []*big.Int
	for _, v := range vals {
		b, _ := new(big.Int).SetString(v, 10)
		all = append(all, b)
		if v != "0" {
			all = append(all, new(big.Int).Neg(b))
		}
	}
	lit := func(b *big.Int) string {
		if b.Sign() < 0 {
			return "(-" + new(big.Int).Neg(b).String() + ")"
		}
		return b.String()
	}
	for _, a := range all {
		for _, b := range all {
			mn, mx := a, b
			if a.Cmp(b) > 0 {
				mn, mx = b, a
			}
			// between(a, b, 0) and between(0, a, b) against <=
			zero := new(big.Int)
			btw1 := b.Cmp(a) <= 0 && a.Cmp(zero) <= 0
			btw2 := a.Cmp(zero) <= 0 && zero.Cmp(b) <= 0
			src := fmt.Sprintf("return [min(%s, %s), max(%s, %s), between(%s, %s, 0), between(0, %s, %s), %s <= %s];", lit(a), lit(b), lit(a), lit(b), lit(a), lit(b), lit(a), lit(b), lit(a), lit(b))
			want := fmt.Sprintf("ARRAY \"[%s, %s, %v, %v, %v]\"", mn, mx, btw1, btw2, a.Cmp(b) <= 0)
			c.count("bigminmax|"+src, true)
			for _, opt := range []bool{true, false} {
				m, err := newMachine(src, nil, nil, opt, nil)
				if err != nil {
					c.disagree(&Disagreement{Kind: "prepare-failed", Script: src, Expected: want, Got: err.Error()})
					break
				}
				if got := m.exec(nil).class(); got != want {
					c.disagree(&Disagreement{Kind: "value", Script: src, Mode: map[bool]string{true: "opt", false: "noopt"}[opt], Expected: want, Got: got})
				}
			}
		}
	}
}

func checkC17(c *Check) {
	c.rule = "MC_Builtins: min/max over all ordered pairs and between over (quick: a third of) all triples of 17 numbers (negative, multi-digit, mixed int/float, equal values of different type); min / max / between / <= over all ordered pairs of 13 integers up to 2^63-1 in magnitude (oracle: math/big); split and join(split(s,d),d) over 12 strings x 7 separators (empty, multi-byte, multi-character) (thorough: also every string of length 0-4 over a, comma and space); sort/reverse over 11 arrays (mixed types, numbers whose numeric and printed orders differ, case variants) with no flag / true / false and the input re-read; join of each array; len lower upper trim string int float type keys over the 50 corpus values and 12 strings; int float string len over 15 numeric spellings with leading zeros, base prefixes and separators; match(subject, pattern) over the subjects and patterns of MC_Match (blanks, line breaks, anchors: either of two definitions, one of them everywhere); 25 built-ins with 0..4 arguments of every type (wrong counts and types; thorough: every 4-tuple of the 8 types); hour minute seconds day month year weekday for 26 instants (thorough: plus 1200 instants sweeping 1936-2037) in UTC from a civil-calendar computation in the specification, and for 5 zones (incl. DST and a 30-minute offset) against the host time library, the zone being changed between calls inside one process; TLC checks the laws min/max vs <, between vs <=, join(split)=s, sort is an ordered permutation, wrong counts never fail; distinct = distinct script"
	c.assumptions = []string{"sort may order by printed form or numerically when all elements are numbers", "printf/sprintf formatting, getenv, now are not constrained", "time-zone database of the host"}
	_ = os.Unsetenv("TZ")
	bigMinMax(c)
	// match() on subjects with blanks and line breaks: either definition of the test, but one of them everywhere
	runMatchRowsAs(c, true)
	runRows(c, "MC_Builtins", stdCfg(c.Tier, "LawsMinMax", "LawsBetween", "LawsJoinSplit", "LawsSort", "NoFailure"), func(row *Row) {
		if row.K == "sort" {
			replayProgRow(c, row, progOpts{})
			var probe struct {
				Name string `json:"name"`
				CI   bool   `json:"ci"`
			}
			_ = json.Unmarshal(row.Raw, &probe)
			sortLaws(c, row, probe.Name, probe.CI)
			return
		}
		replayExprRow(c, row)
	})
	// time zones: the statement's own oracle is the host's time library
	zones := []string{"", "UTC", "America/New_York", "Asia/Kolkata", "Europe/London", "Australia/Lord_Howe", "UTC", "America/New_York"}
	instants := []int64{0, -1, 86399, 86400, 951782400, 1078012800, 1709251199, 1711846800, 1729990800, 1730005200, 1640993415, 2147483647, 1143943200, 1162087200}
	fields := []string{"hour", "minute", "seconds", "day", "month", "year", "weekday"}
	for _, tz := range zones {
		if tz == "" {
			_ = os.Unsetenv("TZ")
		} else {
			_ = os.Setenv("TZ", tz)
		}
		name := tz
		if name == "" {
			name = "UTC"
		}
		loc, err := time.LoadLocation(name)
		if err != nil {
			c.fail("time zone " + name + " not available: " + err.Error())
			continue
		}
		for _, ts := range instants {
			t := time.Unix(ts, 0).In(loc)
			want := map[string]string{"hour": fmt.Sprint(t.Hour()), "minute": fmt.Sprint(t.Minute()), "seconds": fmt.Sprint(t.Second()),
				"day": fmt.Sprint(t.Day()), "month": fmt.Sprint(int(t.Month())), "year": fmt.Sprint(t.Year()), "weekday": t.Weekday().String()}
			for _, f := range fields {
				src := fmt.Sprintf("return %s(%d);", f, ts)
				if ts < 0 {
					src = fmt.Sprintf("return %s((-%d));", f, -ts)
				}
				c.count("tz|"+tz+"|"+src, true)
				m, err := newMachine(src, nil, nil, true, nil)
				if err != nil {
					c.disagree(&Disagreement{Kind: "prepare-failed", Script: src, Expected: want[f], Got: err.Error()})
					continue
				}
				o := m.exec(nil)
				got := o.describe()
				if o.Err == nil && o.Out != nil {
					got = o.Out.Inspect()
				}
				if got != want[f] {
					c.disagree(&Disagreement{Kind: "time-field", Script: src, Expected: want[f] + " (TZ=" + name + ")", Got: got})
				}
			}
		}
	}
	_ = os.Unsetenv("TZ")
}
