package main

// Replay of program rows: a program (abstract syntax or tokens), host
// functions, initial variables and a sequence of runs on ONE evaluator, each
// with the result, host-call sequence and variables the reference semantics
// prescribes.  Both optimised and unoptimised evaluators are driven and must
// agree with the specification and with each other.

import (
	"encoding/json"
	"fmt"
	"runtime"
	"sort"
	"strings"
	"sync"
	"sync/atomic"
	"time"

	"github.com/skx/evalfilter/v2/object"
)

func parseFns(raw json.RawMessage) []FnSpec {
	var out []FnSpec
	for _, kv := range parsePairs(raw) {
		f := FnSpec{Name: asString(kv[0])}
		var probe interface{}
		_ = json.Unmarshal(kv[1], &probe)
		if s, ok := probe.(string); ok {
			f.Kind = s
		} else {
			l := asList(kv[1])
			f.Kind = asString(l[0])
			if len(l) > 1 {
				f.Ret = mustVal(l[1])
			}
		}
		out = append(out, f)
	}
	return out
}

func rowSource(row *Row) string {
	if len(row.Toks) > 0 && string(row.Toks) != "null" {
		sep := row.Sep
		if sep == "" {
			sep = " "
		}
		return renderTokens(row.Toks, sep)
	}
	r := &renderer{elseIf: true}
	if len(row.Prog) > 0 && string(row.Prog) != "null" {
		return r.program(row.Prog)
	}
	return "return " + r.expr(row.E) + ";"
}

func rowVars(row *Row) ([][2]interface{}, bool) {
	var vars [][2]interface{}
	for _, kv := range parsePairs(row.Vars) {
		o, ok := mustVal(kv[1]).Object()
		if !ok {
			return nil, false
		}
		vars = append(vars, [2]interface{}{asString(kv[0]), o})
	}
	return vars, true
}

type runObs struct {
	out   Outcome
	vars  string
	calls string
	steps int64
}

// C07's own formulation: a freshly prepared evaluator holding the same variables must
// behave exactly like the much-used one, and at the same cost (instructions dispatched).
func freshCompare(c *Check, row *Row, src string, fns []FnSpec, opt bool, mode string, ri int, step RunStep, objArg interface{}, used runObs, po progOpts) {
	var vars [][2]interface{}
	for _, kv := range parsePairs(step.Pre) {
		o, ok := mustVal(kv[1]).Object()
		if !ok {
			return
		}
		vars = append(vars, [2]interface{}{asString(kv[0]), o})
	}
	rctx := newResetCtx()
	f, err := newMachine(src, vars, fns, opt, rctx)
	if err != nil {
		return
	}
	si := f.countSteps(po.stepBudget)
	defer f.release()
	o := f.execAct(step.Act, objArg)
	fresh := runObs{out: o, calls: describeCalls(o.Calls), vars: describeGlobals(f), steps: atomic.LoadInt64(&si.n)}
	where := fmt.Sprintf("run %d of %d, object %s, variables before %s", ri+1, len(row.Runs), string(step.Obj), string(step.Pre))
	det := map[string]interface{}{"where": where}
	switch {
	case used.out.class() != fresh.out.class():
		c.disagree(&Disagreement{Kind: "history-result", Script: src, Mode: mode, Expected: "fresh evaluator: " + fresh.out.class(), Got: "used evaluator: " + used.out.class(), Row: row.Raw, Detail: det})
	case used.calls != fresh.calls:
		c.disagree(&Disagreement{Kind: "history-calls", Script: src, Mode: mode, Expected: "fresh evaluator: " + fresh.calls, Got: "used evaluator: " + used.calls, Row: row.Raw, Detail: det})
	case used.vars != fresh.vars:
		c.disagree(&Disagreement{Kind: "history-vars", Script: src, Mode: mode, Expected: "fresh evaluator: " + fresh.vars, Got: "used evaluator: " + used.vars, Row: row.Raw, Detail: det})
	case used.steps != fresh.steps:
		c.disagree(&Disagreement{Kind: "history-cost", Script: src, Mode: mode, Expected: fmt.Sprintf("fresh evaluator: %d instructions", fresh.steps), Got: fmt.Sprintf("used evaluator: %d instructions", used.steps), Row: row.Raw, Detail: det})
	}
}

type progOpts struct {
	freshCompare bool            // C07: also compare every run with a fresh evaluator holding the same variables
	stepBudget   int64           // > 0: runs are cut off (context cancelled) after this many instructions; the context is re-armed for the next run
	collector    *traceCollector // when set, a sample of the rows is also recorded instruction by instruction for Trace_VM
}

// traceCollector gathers recorded executions (code -> spec direction) across rows
type traceCollector struct {
	mu     sync.Mutex
	every  int
	max    int // stop recording once this many events are held (0: no limit); the number recorded is in the evidence
	seen   int
	progs  []*progDump
	events []traceEvent
	runs   int
	where  []string // script of each run, for diagnostics
	starts []int
}

func (tc *traceCollector) want() bool {
	tc.mu.Lock()
	defer tc.mu.Unlock()
	tc.seen++
	if tc.max > 0 && len(tc.events) >= tc.max {
		return false
	}
	return tc.every <= 1 || tc.seen%tc.every == 0
}

// add appends the runs of one machine; the program id is assigned here
func (tc *traceCollector) add(d *progDump, runs [][]traceEvent) {
	tc.mu.Lock()
	defer tc.mu.Unlock()
	d.ID = len(tc.progs) + 1
	tc.progs = append(tc.progs, d)
	for _, evs := range runs {
		evs[0].P = d.ID
		tc.starts = append(tc.starts, len(tc.events))
		tc.where = append(tc.where, d.mode+": "+d.script)
		tc.events = append(tc.events, evs...)
		tc.runs++
	}
}

// validate runs Trace_VM over everything collected and reports a rejection as a disagreement
func (tc *traceCollector) validate(c *Check) {
	if tc == nil || len(tc.events) == 0 {
		return
	}
	reached, total, violated, err := validateTrace(c, tc.progs, tc.events, []string{"PromptStop", "FramesSane", "NoUnderflow"})
	if err != nil {
		c.fail(err.Error())
		return
	}
	c.extra["trace_events"] = len(tc.events)
	if violated == "" && reached >= total {
		c.mu.Lock()
		c.traces += int64(tc.runs)
		c.mu.Unlock()
		return
	}
	line := reached - 2
	if line < 0 {
		line = 0
	}
	if line >= len(tc.events) {
		line = len(tc.events) - 1
	}
	script := ""
	for i, st := range tc.starts {
		if st <= line {
			script = tc.where[i]
		}
	}
	what := "step not allowed by the machine specification"
	if violated != "" {
		what = "invariant " + violated + " violated"
	}
	next := line + 1
	if next >= len(tc.events) {
		next = len(tc.events) - 1
	}
	c.disagree(&Disagreement{Kind: "trace-rejected", Script: script, Expected: "every recorded step is a step of Trace_VM",
		Got: fmt.Sprintf("%s at trace line %d: %s (next: %s)", what, line+1, describeEvent(tc.events[line]), describeEvent(tc.events[next]))})
}

func compareVars(m *Machine, raw json.RawMessage) (bool, string, string) {
	want := []string{}
	names := map[string]bool{}
	for _, kv := range parsePairs(raw) {
		n := asString(kv[0])
		names[n] = true
		want = append(want, n+"="+mustVal(kv[1]).String())
	}
	sort.Strings(want)
	ok := true
	got := []string{}
	g := m.E.VerifEnvironment().VerifGlobals()
	for _, kv := range parsePairs(raw) {
		n := asString(kv[0])
		v := mustVal(kv[1])
		o := m.E.GetVariable(n)
		if _, present := g[n]; !present {
			ok = false
		} else if good, _ := v.matches(o); !good {
			ok = false
		}
	}
	for _, n := range sortedKeys(g) {
		if n == "OPTIMIZE" {
			continue
		}
		got = append(got, n+"="+describe(g[n]))
		if !names[n] {
			ok = false
		}
	}
	return ok, strings.Join(want, " "), strings.Join(got, " ")
}

func replayProgRow(c *Check, row *Row, po progOpts) {
	src := rowSource(row)
	fns := parseFns(row.Fns)
	nontrivial := false
	for _, r := range row.Runs {
		if r.Exp != nil && !mustVal(r.Exp.Out).IsSkip() {
			nontrivial = true
		}
	}
	key := src + "|" + string(row.Vars)
	for _, r := range row.Runs {
		key += "|" + string(r.Obj)
	}
	c.count(key, nontrivial)
	c.sample(map[string]interface{}{"script": src, "runs": len(row.Runs), "first_expected": func() string {
		if len(row.Runs) > 0 && row.Runs[0].Exp != nil {
			return mustVal(row.Runs[0].Exp.Out).String()
		}
		return ""
	}()})
	// no wall clock: a run that does not end is cut off after a number of instructions (counted by the step
	// hook, which cancels the evaluator's context), so that the verdict does not depend on the load of the machine
	if po.stepBudget == 0 {
		po.stepBudget = 1000000
	}
	modes := [2]string{"opt", "noopt"}
	var obs [2][]runObs
	for mi, opt := range []bool{true, false} {
		vars, ok := rowVars(row)
		if !ok {
			c.fail("row variable without object: " + string(row.Vars))
			return
		}
		cancel := func() {}
		rctx := newResetCtx()
		m, err := newMachine(src, vars, fns, opt, rctx)
		if err != nil {
			cancel()
			c.disagree(&Disagreement{Kind: "prepare-failed", Script: src, Mode: modes[mi], Expected: "accepted", Got: err.Error(), Row: row.Raw})
			return
		}
		var tr *tracer
		var recorded [][]traceEvent
		if po.collector != nil && po.collector.want() {
			tr = attachTracer(m)
			defer detachTracer(m)
		}
		var si *stepInfo
		si = m.countSteps(po.stepBudget)
		defer m.release()
		skipping := false
		for ri, step := range row.Runs {
			if rctx != nil {
				rctx.reset()
			}
			if si != nil {
				atomic.StoreInt64(&si.n, 0)
			}
			if po.freshCompare && ri > 0 {
				// the host registers its functions again before every run (a closure per request): the new
				// registration is the one the run must call
				for _, f := range fns {
					m.addFunction(f)
				}
			}
			obj, ok := objFromPairs(step.Obj)
			if !ok {
				c.fail("object field without host value: " + string(step.Obj))
				cancel()
				return
			}
			var objArg interface{}
			if obj != nil && !step.NilObj {
				objArg = obj
			}
			var o Outcome
			if tr != nil && step.Act != "run" {
				var evs []traceEvent
				evs, o = tr.tracedRun(m, 0, objArg, 0)
				recorded = append(recorded, evs)
			} else {
				o = m.execAct(step.Act, objArg)
			}
			ro := runObs{out: o, calls: describeCalls(o.Calls), vars: describeGlobals(m)}
			if si != nil {
				ro.steps = atomic.LoadInt64(&si.n)
			}
			obs[mi] = append(obs[mi], ro)
			if po.freshCompare && len(step.Pre) > 0 && string(step.Pre) != "null" {
				freshCompare(c, row, src, fns, opt, modes[mi], ri, step, objArg, ro, po)
			}
			if step.Exp == nil || skipping {
				continue
			}
			exp := mustVal(step.Exp.Out)
			where := fmt.Sprintf("run %d of %d, object %s", ri+1, len(row.Runs), string(step.Obj))
			if exp.IsSkip() {
				// unconstrained from here on: later runs depend on variables the model no longer knows
				skipping = true
				if o.Panic != nil {
					c.disagree(&Disagreement{Kind: "panic", Script: src, Mode: modes[mi], Expected: "no panic", Got: o.describe(), Row: row.Raw, Detail: map[string]interface{}{"where": where}})
				}
				continue
			}
			if kind, want, got := compareOut(exp, o); kind != "" {
				c.disagree(&Disagreement{Kind: kind, Script: src, Mode: modes[mi], Expected: want, Got: got, Row: row.Raw, Detail: map[string]interface{}{"where": where}})
			}
			if len(step.Exp.Calls) > 0 && string(step.Exp.Calls) != "null" {
				want := describeCalls(expectedCalls(step.Exp.Calls))
				if want != ro.calls {
					c.disagree(&Disagreement{Kind: "calls", Script: src, Mode: modes[mi], Expected: want, Got: ro.calls, Row: row.Raw, Detail: map[string]interface{}{"where": where}})
				}
			}
			if (!exp.IsErr() || row.ErrVars) && exp.Tag != "DIVERGE" && len(step.Exp.Vars) > 0 && string(step.Exp.Vars) != "null" {
				if ok, want, got := compareVars(m, step.Exp.Vars); !ok {
					c.disagree(&Disagreement{Kind: "vars", Script: src, Mode: modes[mi], Expected: want, Got: got, Row: row.Raw, Detail: map[string]interface{}{"where": where}})
				}
			}
			if o.Idle != "" {
				c.disagree(&Disagreement{Kind: "machine-not-restored", Script: src, Mode: modes[mi], Expected: "machine left as it was found", Got: o.Idle, Row: row.Raw, Detail: map[string]interface{}{"where": where}})
			}
			if o.Scopes != 0 {
				c.disagree(&Disagreement{Kind: "scopes-open", Script: src, Mode: modes[mi], Expected: "0 open scopes after the run", Got: fmt.Sprint(o.Scopes), Row: row.Raw, Detail: map[string]interface{}{"where": where}})
			}
			if exp.IsErr() && !row.ErrVars {
				// after a failed run the variables are whatever the run had done so far: the
				// model does not follow them, later runs are unconstrained
				skipping = true
			}
		}
		cancel()
		if tr != nil && len(recorded) > 0 {
			if d, err := dumpPrepared(src, opt); err == nil {
				po.collector.add(d, recorded)
			}
		}
	}
	if row.Repeat {
		for mi := range modes {
			for ri := 1; ri < len(obs[mi]); ri++ {
				a, b := obs[mi][ri-1], obs[mi][ri]
				if a.out.class() != b.out.class() || a.calls != b.calls {
					c.disagree(&Disagreement{Kind: "not-repeatable", Script: src, Mode: modes[mi], Expected: a.out.class() + " calls " + a.calls, Got: b.out.class() + " calls " + b.calls, Row: row.Raw,
						Detail: map[string]interface{}{"where": fmt.Sprintf("run %d differs from run %d on the same inputs", ri+1, ri)}})
				}
			}
		}
	}
	// optimised and unoptimised evaluators must be indistinguishable (C03), run by run
	for ri := range row.Runs {
		if ri >= len(obs[0]) || ri >= len(obs[1]) {
			break
		}
		a, b := obs[0][ri], obs[1][ri]
		where := fmt.Sprintf("run %d of %d, object %s", ri+1, len(row.Runs), string(row.Runs[ri].Obj))
		if a.out.class() != b.out.class() {
			c.disagree(&Disagreement{Kind: "opt-diff", Script: src, Expected: b.out.class(), Got: a.out.class(), Row: row.Raw, Detail: map[string]interface{}{"where": where}})
		} else if a.calls != b.calls {
			c.disagree(&Disagreement{Kind: "calls-opt-diff", Script: src, Expected: b.calls, Got: a.calls, Row: row.Raw, Detail: map[string]interface{}{"where": where}})
		} else if a.vars != b.vars {
			c.disagree(&Disagreement{Kind: "vars-opt-diff", Script: src, Expected: b.vars, Got: a.vars, Row: row.Raw, Detail: map[string]interface{}{"where": where}})
		}
	}
}

// run a TLC module which exports rows and hand every row to the handler (in parallel)
func runRows(c *Check, module, cfg string, handler func(row *Row)) *tlcResult {
	rows := make(chan *Row, 4096)
	var wg sync.WaitGroup
	for w := 0; w < runtime.NumCPU(); w++ {
		wg.Add(1)
		go func() {
			defer wg.Done()
			for row := range rows {
				func() {
					defer func() {
						if r := recover(); r != nil {
							c.fail(fmt.Sprintf("harness panic on row %.300s: %v", row.Raw, r))
						}
					}()
					handler(row)
				}()
			}
		}()
	}
	timeout := 8 * time.Minute
	if c.Tier == "thorough" {
		timeout = 40 * time.Minute
	}
	res, err := runTLC(tlcOpts{Module: module, Cfg: cfg, Timeout: timeout, OnRow: func(raw json.RawMessage) {
		var row Row
		if err := json.Unmarshal(raw, &row); err != nil {
			c.fail("bad row " + err.Error())
			return
		}
		row.Raw = raw
		c.mu.Lock()
		c.behaviours++
		c.mu.Unlock()
		rows <- &row
	}})
	close(rows)
	wg.Wait()
	if res != nil {
		c.addTLC(res)
	}
	if err != nil {
		c.fail(err.Error())
		return res
	}
	if res.Violation != "" {
		c.fail("specification-level check failed in " + module + ": " + res.Violation + "\n" + lastLines(res.Output, 30))
	}
	return res
}

func stdCfg(tier string, invariants ...string) string {
	var sb strings.Builder
	sb.WriteString("SPECIFICATION Spec\n")
	fmt.Fprintf(&sb, "CONSTANT Tier = \"%s\"\nCONSTANT Seed = %d\n", tier, specSeed())
	for _, inv := range invariants {
		sb.WriteString("INVARIANT " + inv + "\n")
	}
	sb.WriteString("INVARIANT Export\nCHECK_DEADLOCK FALSE\n")
	return sb.String()
}

var _ object.Object

// run a TLC module in simulation mode and hand every exported row to the handler
func runRowsSim(c *Check, module, cfg string, num, depth int, handler func(row *Row)) {
	rows := make(chan *Row, 4096)
	var wg sync.WaitGroup
	for w := 0; w < runtime.NumCPU(); w++ {
		wg.Add(1)
		go func() {
			defer wg.Done()
			for row := range rows {
				func() {
					defer func() {
						if r := recover(); r != nil {
							c.fail(fmt.Sprintf("harness panic on row %.300s: %v", row.Raw, r))
						}
					}()
					handler(row)
				}()
			}
		}()
	}
	res, err := runTLC(tlcOpts{Module: module, Cfg: cfg, Workers: 1, Timeout: 20 * time.Minute, Simulate: fmt.Sprintf("num=%d", num), Depth: depth, Seed: c.Seed,
		OnRow: func(raw json.RawMessage) {
			var row Row
			if json.Unmarshal(raw, &row) != nil {
				return
			}
			row.Raw = raw
			c.mu.Lock()
			c.behaviours++
			c.mu.Unlock()
			rows <- &row
		}})
	close(rows)
	wg.Wait()
	if res != nil {
		c.tlcCmds = append(c.tlcCmds, res.Cmd)
	}
	if err != nil {
		c.fail(err.Error())
	} else if res.Violation != "" {
		c.fail("specification-level check failed in " + module + " (simulation): " + res.Violation)
	}
	c.exhaustive = false
}
