package main

func init() {
	checks["C03"] = checkC03
}

// C03: optimised and unoptimised evaluators are indistinguishable.
func checkC03(c *Check) {
	c.rule = "MC_Opt places 12 constant conditions (literals, folded comparisons, values around the inline-integer limit, truthy/falsy constants) as the condition of every condition-bearing construct, nested in / followed by / preceded by every construct of EFSyntax (37 kinds incl. returns in untaken branches, constant arithmetic statements, ternaries as operands and as conditions), with and without code in front; MC_Flow, the arithmetic groupings of MC_Expr, its fold family (6 arithmetic operators x 23 x 23 inline integer literals whose products and powers reach and wrap around 64 bits) and every cell and nesting with % or ** are replayed as well; every program runs on an optimised and an unoptimised evaluator over a sequence of runs and must agree with EFSemantics and with each other on result, host calls and variables; distinct = distinct script text"
	c.assumptions = []string{
		"the script-visible OPTIMIZE variable and the integer-typed folded square root are recorded known findings",
	}
	runRows(c, "MC_Opt", stdCfg(c.Tier, "Specified"), func(row *Row) {
		replayProgRow(c, row, progOpts{})
	})
	runRows(c, "MC_Flow", stdCfg(c.Tier, "Specified", "Bounded"), func(row *Row) {
		if row.K == "recase" {
			return // (rows with two admissible expectations: C02 deals with them)
		}
		replayProgRow(c, row, progOpts{})
	})
	// the witnesses of the recorded findings of this property: each must still reproduce (and is then
	// reported as KNOWN-FINDING, not as a violation)
	for _, src := range []string{`return OPTIMIZE;`, `x = OPTIMIZE; if ( x ) { return 1; } return 2;`, `return type(√9);`} {
		var cls [2]string
		for mi, opt := range []bool{true, false} {
			if m, err := newMachine(src, nil, nil, opt, nil); err == nil {
				cls[mi] = m.exec(nil).class()
			}
		}
		c.count("witness|"+src, true)
		if cls[0] != cls[1] {
			c.disagree(&Disagreement{Kind: "opt-diff", Script: src, Expected: cls[1], Got: cls[0]})
		}
	}
	// refinement inside the specification (EFVM on EFCompiler / EFOptimizer output against EFSemantics), and the
	// model machine's instruction path against the real machine's
	runRefine(c)
	runExprRows(c, func(ops []string) bool {
		// constant arithmetic, comparisons and roots: what the optimizer rewrites
		for _, o := range ops {
			switch o {
			case "+", "-", "*", "/", "==", "!=", "sqrt":
				if len(ops) >= 2 {
					return true
				}
			case "%", "**":
				// (not folded today; an optimizer which starts to fold them must fold them to what the machine computes)
				return true
			}
		}
		return false
	})
}
