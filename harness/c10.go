package main

// C10: scripts are confined - call-graph capability model (MC_Confine) plus a
// syscall trace of a worker which exercises every built-in.

import (
	"bufio"
	"bytes"
	"context"
	"encoding/json"
	"fmt"
	"go/parser"
	"go/token"
	"os"
	"os/exec"
	"path/filepath"
	"regexp"
	"sort"
	"strconv"
	"strings"
	"time"

	"github.com/skx/evalfilter/v2"
)

func init() {
	checks["C10"] = checkC10
}

var (
	reRoot = regexp.MustCompile(`^(\(\*github\.com/skx/evalfilter/v2\.Eval\)\.(Prepare|Run|Execute|Dump|AddFunction|SetVariable|GetVariable|SetContext)|github\.com/skx/evalfilter/v2\.New|github\.com/skx/evalfilter/v2/vm\.New|\(\*github\.com/skx/evalfilter/v2/vm\.VM\)\.(Run|WalkBytecode|WalkFunctionBytecode|SetContext)|github\.com/skx/evalfilter/v2/environment\.(fn[A-Z]\w*|New|getTimeField|sortHelper|compileRegexp)|\(\*github\.com/skx/evalfilter/v2/environment\.Environment\)\.\w+|github\.com/skx/evalfilter/v2/(lexer|parser)\.New|\(\*github\.com/skx/evalfilter/v2/(lexer|parser)\.\w+\)\.\w+|\(\*github\.com/skx/evalfilter/v2/object\.\w+\)\.\w+)$`)
	// (time.initLocal / loadLocation / open: the time package reading the host's time-zone database - the
	// local zone is loaded lazily by any use of a time.Time; time.open is not callable from outside package time)
	reSink = regexp.MustCompile(`^(os\.Getenv|os\.LookupEnv|syscall\.Getenv|time\.LoadLocation|time\.Now|time\.initLocal|time\.loadLocation|time\.open|fmt\.Printf|fmt\.Print|fmt\.Println)$`)
	// creating / opening / removing files, network, processes, plug-ins
	reForbidden = regexp.MustCompile(`^(os\.(Open|OpenFile|Create|CreateTemp|Remove|RemoveAll|Rename|Mkdir|MkdirAll|MkdirTemp|ReadFile|WriteFile|ReadDir|Truncate|Chmod|Chown|Link|Symlink|StartProcess|Chdir|DirFS|OpenInRoot|OpenRoot|Pipe)|io/ioutil\.\w+|os/exec\..*|\(\*os/exec\.\w+\)\..*|os/user\..*|plugin\..*|log\.\w+|\(\*log\.Logger\)\.\w+|log/syslog\..*|\(reflect\.Value\)\.(Call|CallSlice|Method|MethodByName)|\(\*reflect\.rtype\)\.(Method|MethodByName)|println|print|net\..*|\(\*?net\.\w+\)\..*|net/\w+\..*|syscall\.(Open|Openat|openat|Creat|Unlink|Unlinkat|unlinkat|Mkdir|Mkdirat|Rmdir|Rename|Renameat|Link|Symlink|Socket|socket|Connect|connect|Bind|bind|Listen|ForkExec|forkExec|StartProcess|Exec|Mknod|Truncate|Chmod|Chown|Mount|Chroot|Ptrace\w*)|os\.openFileNolog|os\.open|os\.(\(\*ProcAttr\)|startProcess)|\(\*os\.Root\)\..*)$`)
)

type cgNode struct {
	ID        int    `json:"id"`
	Name      string `json:"name"`
	To        []int  `json:"to"`
	Root      bool   `json:"root"`
	Sink      bool   `json:"sink"`
	Forbidden bool   `json:"forbidden"`
}

func buildCallGraph() ([]*cgNode, error) {
	ctx, cancel := context.WithTimeout(context.Background(), 5*time.Minute)
	defer cancel()
	cmd := exec.CommandContext(ctx, "callgraph", "-algo", "rta", "-format", "{{.Caller}}\t{{.Callee}}", "./confine")
	cmd.Dir = filepath.Join(verifRoot, "harness")
	cmd.Env = append(os.Environ(), "GOFLAGS=-mod=mod", "GOPROXY=off", "GOSUMDB=off", "GOTOOLCHAIN=local")
	var out, errb bytes.Buffer
	cmd.Stdout = &out
	cmd.Stderr = &errb
	if err := cmd.Run(); err != nil {
		return nil, fmt.Errorf("callgraph failed: %v\n%s", err, lastLines(errb.String(), 10))
	}
	idx := map[string]*cgNode{}
	var nodes []*cgNode
	get := func(n string) *cgNode {
		if x, ok := idx[n]; ok {
			return x
		}
		x := &cgNode{ID: len(nodes) + 1, Name: n, To: []int{}, Root: reRoot.MatchString(n), Sink: reSink.MatchString(n), Forbidden: reForbidden.MatchString(n)}
		idx[n] = x
		nodes = append(nodes, x)
		return x
	}
	sc := bufio.NewScanner(&out)
	sc.Buffer(make([]byte, 1<<20), 1<<26)
	seen := map[[2]int]bool{}
	for sc.Scan() {
		p := strings.SplitN(sc.Text(), "\t", 2)
		if len(p) != 2 {
			continue
		}
		a, b := get(p[0]), get(p[1])
		if !seen[[2]int{a.ID, b.ID}] {
			seen[[2]int{a.ID, b.ID}] = true
			a.To = append(a.To, b.ID)
		}
	}
	return nodes, nil
}

// library sources must not import packages which give file / network / process access wholesale
func forbiddenImports() []string {
	var bad []string
	banned := map[string]bool{"net": true, "net/http": true, "os/exec": true, "plugin": true, "io/ioutil": true, "os/user": true, "net/url": false, "unsafe": true, "syscall": true, "os/signal": true}
	for _, dir := range []string{"", "code", "environment", "lexer", "object", "parser", "stack", "token", "vm", "ast"} {
		pkgs, err := parser.ParseDir(token.NewFileSet(), filepath.Join("/repo", dir), func(fi os.FileInfo) bool {
			return !strings.HasSuffix(fi.Name(), "_test.go")
		}, parser.ImportsOnly)
		if err != nil {
			continue
		}
		for _, p := range pkgs {
			for fname, f := range p.Files {
				for _, im := range f.Imports {
					path, _ := strconv.Unquote(im.Path.Value)
					if banned[path] {
						bad = append(bad, filepath.Base(fname)+" imports "+path)
					}
				}
			}
		}
	}
	sort.Strings(bad)
	return bad
}

// ---- the worker traced by strace -----------------------------------------------------------------
func c10Worker() int {
	os.Stderr.WriteString("C10-BEGIN\n")
	scripts := []string{
		`return [between(1,0,2), float("1.5"), getenv("HOME"), getenv("USER"), getenv("LOGNAME"), getenv("TZ"), int("3"), join([1,2],","), keys({"a":1}), len("abc"), lower("AB"), match("a","a"), max(1,2), min(1,2), now() > 0, time() > 0];`,
		`return [replace("abc", /b/, "x"), reverse([1,2]), sort([2,1]), split("a,b", ","), sprintf("%d %s", 1, "x"), string(1.5), trim(" a "), type(1), upper("ab")];`,
		`return [hour(0), minute(0), seconds(0), day(0), month(0), year(0), weekday(0), hour(N), weekday(N)];`,
		`print("x", 1, "\n"); printf("%s %d\n", "y", 2); return 1;`,
		`return [getenv("/etc/passwd"), getenv("../../etc/shadow"), getenv(""), getenv(1), string(getenv("PATH")) ~= /bin/];`,
		`x = 1 % 0; return x;`, `panic("boom");`, `return N[0];`, `return nosuch(1);`, `return match("a", "(");`, `return replace("a", "(", "b");`,
		`function f(a) { return f(a); } return f(1);`, `return 3 +`, `return [Name, N, P, S, F, C, nothing];`, `x = P; y = S; return type(x) + type(y) + type(F);`, `foreach k, v in {"a": 1} { print(k, v); } return Name ~= /x/i;`,
		`return sprintf("%v %v %v %v", [1], {"a": 1}, null, 2.5) + string(now()) + getenv("TZ");`,
	}
	objs := []interface{}{nil, map[string]interface{}{"N": int64(1700000000), "Name": "x"}, map[int]interface{}{1: 2}, 5, map[string]string{"a": "b"}, struct{ N chan int }{},
		// fields of kinds the engine cannot represent, in a struct and in a hand-built map: whatever it has to say about them goes to standard output
		struct {
			Name string
			N    uint32
			P    *int
			S    struct{ A int }
			F    func()
			B    []byte
			U    []uint16
			L    [][]string
		}{Name: "odd", B: []byte("ab"), U: []uint16{1, 2}, L: [][]string{{"x"}}}, map[string]interface{}{"Name": "odd", "N": uint32(7), "P": new(int), "S": struct{ A int }{1}, "C": make(chan int), "B": []byte("ab"), "U": []uint16{3}, "L": []interface{}{nil, struct{}{}}}}
	for _, tz := range []string{"", "UTC", "America/New_York", "Nowhere/Nothing", "../../etc/passwd"} {
		if tz == "" {
			os.Unsetenv("TZ")
		} else {
			os.Setenv("TZ", tz)
		}
		for _, s := range scripts {
			for _, flags := range [][]byte{nil, {evalfilter.NoOptimize}} {
				func() {
					defer func() { _ = recover() }()
					e := evalfilter.New(s)
					ctx, cancel := context.WithTimeout(context.Background(), 200*time.Millisecond)
					defer cancel()
					e.SetContext(ctx)
					var err error
					if flags == nil {
						err = e.Prepare()
					} else {
						err = e.Prepare(flags)
					}
					if err != nil {
						return
					}
					for _, o := range objs {
						_, _ = e.Execute(o)
						func() {
							defer func() { _ = recover() }()
							_, _ = e.Run(o)
						}()
					}
					_ = e.Dump()
				}()
			}
		}
	}
	os.Stderr.WriteString("C10-END\n")
	return 0
}

var (
	reStraceLine = regexp.MustCompile(`^(?:\[pid\s+\d+\]\s+)?(?:\d+\s+)?(\w+)\((.*)$`)
	rePathArg    = regexp.MustCompile(`"([^"]*)"`)
)

// classify one traced syscall: "" = permitted, else the reason it is not
func classifySyscall(name, rest string) string {
	path := ""
	if m := rePathArg.FindStringSubmatch(rest); m != nil {
		path = m[1]
	}
	tz := strings.HasPrefix(path, "/usr/share/zoneinfo") || strings.HasPrefix(path, "/etc/zoneinfo") || strings.HasPrefix(path, "/usr/lib/go") || strings.HasPrefix(path, "/usr/share/lib/zoneinfo") || strings.HasPrefix(path, "/usr/lib/locale/TZ") || path == "/etc/localtime" || strings.Contains(path, "/lib/time/zoneinfo.zip")
	switch name {
	case "write", "writev":
		if strings.HasPrefix(rest, "1,") {
			return ""
		}
		if strings.HasPrefix(rest, "2,") {
			return "writes to standard error (" + truncate(rest, 60) + ")"
		}
		return "write to a descriptor other than standard output"
	case "open", "openat":
		if !tz {
			return "opens " + path
		}
		if strings.Contains(rest, "O_WRONLY") || strings.Contains(rest, "O_RDWR") || strings.Contains(rest, "O_CREAT") || strings.Contains(rest, "O_TRUNC") {
			return "opens " + path + " for writing"
		}
		return ""
	case "read", "pread64", "close", "fstat", "newfstatat", "stat", "lstat", "access", "faccessat", "faccessat2", "readlink", "readlinkat", "getcwd", "lseek", "statx", "fcntl", "getdents64":
		return ""
	case "clone", "clone3":
		if strings.Contains(rest, "CLONE_THREAD") || strings.Contains(rest, "CLONE_VM") {
			return "" // a thread of the Go runtime, not a process
		}
		return "creates a process"
	case "exit", "exit_group", "futex", "rt_sigprocmask", "rt_sigaction", "sigaltstack", "mmap", "munmap", "madvise", "nanosleep", "sched_yield", "gettid", "getpid", "tgkill", "rt_sigreturn", "epoll_pwait", "epoll_ctl", "epoll_create1", "eventfd2", "prlimit64", "mprotect", "brk", "set_robust_list", "rseq", "clock_gettime", "clock_nanosleep", "getrandom", "uname", "sched_getaffinity", "restart_syscall", "timer_create", "timer_settime", "timer_delete", "pipe2", "arch_prctl", "set_tid_address", "prctl", "membarrier":
		return ""
	}
	return "syscall " + name + "(" + truncate(rest, 80) + ")"
}

func checkC10(c *Check) {
	c.rule = "the call graph of a driver using every public entry point (built-ins only) is extracted from the current tree by rapid type analysis (golang.org/x/tools callgraph); MC_Confine receives it as data - functions, callees, roots (public methods of evaluator, VM, environment, lexer, parser, objects, every built-in), permitted sinks (environment, clock, time-zone loading, printing) which are not looked into, forbidden functions (file creation/opening/removal, directories, sockets, processes, plug-ins, os/user, the log package, calling methods of host objects through reflection) - and TLC explores every call path from every root with the invariant that no forbidden function is entered; the import sets of the library packages are checked; a worker running 17 scripts exercising every built-in (incl. hostile arguments and 5 TZ settings) x 8 objects (incl. structs and maps with fields of kinds the engine cannot represent) x 2 modes through Prepare/Execute/Run/Dump is traced with strace -f and every syscall between its markers is classified (writes to standard output, read-only opens of the time-zone database, threads and runtime noise are permitted); distinct = call-graph functions / traced syscalls"
	c.assumptions = []string{"soundness of the RTA call graph (calls through interfaces and function values are resolved to every instantiated type / address-taken function); reflection-based calls and linkname are outside it", "the classification of syscalls and of time-zone paths is done by the harness"}
	for _, b := range forbiddenImports() {
		c.disagree(&Disagreement{Kind: "forbidden-import", Script: "", Expected: "library packages import no file/network/process packages", Got: b})
	}
	nodes, err := buildCallGraph()
	if err != nil {
		c.fail(err.Error())
		return
	}
	var sb strings.Builder
	roots, sinks, forb := 0, 0, 0
	for _, n := range nodes {
		b, _ := json.Marshal(n)
		sb.Write(b)
		sb.WriteByte('\n')
		if n.Root {
			roots++
		}
		if n.Sink {
			sinks++
		}
		if n.Forbidden {
			forb++
		}
		c.count("fn|"+n.Name, len(n.To) > 0)
	}
	c.extra["functions"] = len(nodes)
	c.extra["roots"] = roots
	c.extra["sinks_in_graph"] = sinks
	c.extra["forbidden_in_graph"] = forb
	if roots < 40 {
		c.fail(fmt.Sprintf("only %d roots recognised in the call graph: the extraction does not see the library", roots))
		return
	}
	c.sample(map[string]interface{}{"function": nodes[0].Name, "callees": len(nodes[0].To)})
	cfg := "SPECIFICATION Spec\nINVARIANT Confined\nCHECK_DEADLOCK FALSE\n"
	res, err := runTLC(tlcOpts{Module: "MC_Confine", Cfg: cfg, Timeout: 15 * time.Minute, Extra: map[string]string{"graph.ndjson": sb.String()}})
	if res != nil {
		c.addTLC(res)
	}
	if err != nil {
		c.fail(err.Error())
	} else if res.Violation != "" {
		// the counterexample is a call path: a sequence of "cur = id" states
		re := regexp.MustCompile(`cur = (\d+)`)
		var path []string
		for _, m := range re.FindAllStringSubmatch(res.Output, -1) {
			id, _ := strconv.Atoi(m[1])
			if id >= 1 && id <= len(nodes) && (len(path) == 0 || path[len(path)-1] != nodes[id-1].Name) {
				path = append(path, nodes[id-1].Name)
			}
		}
		c.disagree(&Disagreement{Kind: "forbidden-function-reachable", Script: "", Expected: "no file / network / process function is reachable from the library's entry points", Got: strings.Join(path, " -> ")})
	} else {
		c.mu.Lock()
		c.traces++
		c.mu.Unlock()
	}
	// dynamic: syscalls of the worker
	self, _ := os.Executable()
	logf, err := os.CreateTemp("", "efstrace-*.log")
	if err != nil {
		c.fail(err.Error())
		return
	}
	logf.Close()
	defer os.Remove(logf.Name())
	ctx, cancel := context.WithTimeout(context.Background(), 10*time.Minute)
	defer cancel()
	cmd := exec.CommandContext(ctx, "strace", "-f", "-qq", "-o", logf.Name(), "-e", "trace=%file,%process,%network,write,writev,eventfd2,pipe2,epoll_create1", self, "c10worker")
	cmd.Env = append(os.Environ(), "HOME=/nonexistent-home")
	cmd.Stdout = nil
	var serr bytes.Buffer
	cmd.Stderr = &serr
	if err := cmd.Run(); err != nil {
		c.fail("strace run failed: " + err.Error() + " " + truncate(serr.String(), 300))
		return
	}
	f, err := os.Open(logf.Name())
	if err != nil {
		c.fail(err.Error())
		return
	}
	defer f.Close()
	sc := bufio.NewScanner(f)
	sc.Buffer(make([]byte, 1<<20), 1<<26)
	in, traced := false, 0
	runtimeFds := map[string]bool{} // eventfd / pipe / epoll descriptors of the Go runtime's poller
	reFd := regexp.MustCompile(`^(?:\d+\s+)?(eventfd2|epoll_create1)\(.*\)\s+=\s+(\d+)`)
	rePipe := regexp.MustCompile(`^(?:\d+\s+)?pipe2\(\[(\d+), (\d+)\]`)
	for sc.Scan() {
		line := sc.Text()
		if m := reFd.FindStringSubmatch(line); m != nil {
			runtimeFds[m[2]] = true
		}
		if m := rePipe.FindStringSubmatch(line); m != nil {
			runtimeFds[m[1]], runtimeFds[m[2]] = true, true
		}
		if strings.Contains(line, "C10-BEGIN") {
			in = true
			continue
		}
		if strings.Contains(line, "C10-END") {
			in = false
			continue
		}
		if !in {
			continue
		}
		// strip the pid column
		fields := strings.SplitN(line, " ", 2)
		body := line
		if len(fields) == 2 {
			if _, err := strconv.Atoi(fields[0]); err == nil {
				body = strings.TrimSpace(fields[1])
			}
		}
		m := reStraceLine.FindStringSubmatch(body)
		if m == nil || strings.HasPrefix(body, "<...") || strings.HasPrefix(body, "---") || strings.HasPrefix(body, "+++") {
			continue
		}
		traced++
		if m[1] == "write" {
			if fd := strings.SplitN(m[2], ",", 2)[0]; runtimeFds[fd] {
				continue // the runtime waking its own poller
			}
		}
		if why := classifySyscall(m[1], m[2]); why != "" {
			c.disagree(&Disagreement{Kind: "syscall", Script: "", Expected: "only standard output, environment, clock and the time-zone database", Got: why + ": " + truncate(body, 200)})
		}
	}
	c.extra["syscalls_classified"] = traced
	if traced < 20 {
		c.fail(fmt.Sprintf("only %d syscalls seen between the worker's markers: the trace is not working", traced))
	}
}
