package main

func init() {
	checks["C01"] = checkC01
}

// C01: every cell of the operator tables, two-operator nestings, three provenances.
func checkC01(c *Check) {
	c.rule = "MC_Expr enumerates operator x left x right over the value set of EFValues (all types, boundaries), unary operators, and all two-operator nestings over a reduced set; each row is the script `return <expr>;` with operands as literals / variables / object fields, run optimised and unoptimised; a case is non-trivial when the specification gives a value or ERR (not SKIP); ; MC_Match: 17 subjects with blanks and line breaks x 11 anchored patterns x ~= / !~ x 3 provenances; distinct = distinct (provenance, script text)"
	c.assumptions = []string{
		"TLC arithmetic is 32-bit: results beyond 10^9, 64-bit wrap-around are outside the model (SKIP)",
		"floats are exact rationals; the implementation's float64 must equal the correctly rounded rational (math/big), printed forms of floats come from strconv (trusted)",
		"error messages are not compared, only error-ness",
		"regexps outside the subset {literal, ., ^, $, x*, flag i} are SKIP; for subjects containing white space or line breaks MC_Match accepts the verdict of either of two definitions (lines stripped and tested one by one / the text as it is) provided the same one is followed for every subject",
	}
	runExprRows(c, nil)
	// subjects with white space and line breaks: either definition, but one of them everywhere
	runMatchRows(c)
}
