package main

// Replay of MC_Expr rows (operator tables and nestings): the script is
// "return <expr>;" with the operands supplied as literals, as variables set
// through SetVariable, or as fields of the object, run optimised and
// unoptimised.

import (
	"encoding/json"
	"fmt"
	"runtime"
	"strconv"
	"strings"
	"sync"
	"time"

	"github.com/skx/evalfilter/v2/object"
)

type exprFilter func(ops []string) bool

func collectOps(raw json.RawMessage, out *[]string) {
	n := asNode(raw)
	switch asString(n[0]) {
	case "un":
		*out = append(*out, asString(n[1]))
		collectOps(n[2], out)
	case "bin":
		*out = append(*out, asString(n[1]))
		collectOps(n[2], out)
		collectOps(n[3], out)
	}
}

func mcExprCfg(tier string) string {
	return fmt.Sprintf(`SPECIFICATION Spec
CONSTANT Tier = "%s"
CONSTANT Seed = %d
INVARIANT LawsHold
INVARIANT TotalHold
INVARIANT TruthHold
INVARIANT Export
CHECK_DEADLOCK FALSE
`, tier, specSeed())
}

// build the script and its environment for an expression row
func buildExprRow(row *Row) (src string, vars [][2]interface{}, obj map[string]interface{}) {
	obj = map[string]interface{}{}
	i := 0
	r := &renderer{}
	r.leaf = func(v Val) (string, bool) {
		p := byte('l')
		if i < len(row.Prov) {
			p = row.Prov[i]
		}
		idx := i
		i++
		if _, ok := v.Literal(); !ok && (p == 'l' || p == 'z') {
			p = 'v'
		}
		switch p {
		case 'z':
			// a non-negative integer written with a leading zero: the same number
			if v.Tag == "I" && v.I >= 0 {
				return "0" + strconv.FormatInt(v.I, 10), true
			}
		case 'f':
			if h, ok := v.Host(); ok {
				name := fmt.Sprintf("F%c", 'a'+idx)
				obj[name] = h
				return name, true
			}
			fallthrough
		case 'v':
			if o, ok := v.Object(); ok {
				name := fmt.Sprintf("v%c", 'a'+idx)
				vars = append(vars, [2]interface{}{name, o})
				return name, true
			}
		}
		return "", false
	}
	src = "return " + r.expr(row.E) + ";"
	return
}

func replayExprRow(c *Check, row *Row) {
	exp := mustVal(row.Exp)
	src, vars, obj := buildExprRow(row)
	key := row.Prov + "|" + src
	c.count(key, !exp.IsSkip())
	if exp.IsSkip() && strings.Contains(src, "..") {
		// an unconstrained row which builds a range: it may legitimately need more
		// memory than the host has (the property excludes those), so it is not run
		return
	}
	c.sample(map[string]interface{}{"script": src, "prov": row.Prov, "expected": exp.String()})
	var outs [2]Outcome
	var kinds, wants, gots [2]string
	modes := [2]string{"opt", "noopt"}
	for mi, opt := range []bool{true, false} {
		m, err := newMachine(src, vars, nil, opt, nil)
		var o Outcome
		if err != nil {
			o.PrepErr = err
			kinds[mi], wants[mi], gots[mi] = "prepare-failed", exp.String(), o.describe()
			outs[mi] = o
			continue
		}
		o = m.exec(obj)
		outs[mi] = o
		kinds[mi], wants[mi], gots[mi] = compareOut(exp, o)
		if o.Scopes != 0 {
			c.disagree(&Disagreement{Kind: "scopes-open", Script: src, Mode: modes[mi], Expected: "0 open scopes", Got: fmt.Sprint(o.Scopes), Row: row.Raw})
		}
	}
	for mi := range modes {
		if kinds[mi] != "" {
			c.disagree(&Disagreement{Kind: kinds[mi], Script: src, Mode: modes[mi], Expected: wants[mi], Got: gots[mi], Row: row.Raw,
				Detail: map[string]interface{}{"other_mode_agrees_with_spec": kinds[1-mi] == ""}})
		}
	}
	// the two modes must agree whatever the expectation (C03)
	if outs[0].PrepErr == nil && outs[1].PrepErr == nil && outs[0].class() != outs[1].class() {
		c.disagree(&Disagreement{Kind: "opt-diff", Script: src, Mode: "", Expected: outs[1].class(), Got: outs[0].class(), Row: row.Raw})
	}
	// an all-literal row once more with its integers written with a leading zero ("010" is ten)
	if row.Prov != "" && strings.Trim(row.Prov, "l") == "" && !exp.IsSkip() {
		zrow := *row
		zrow.Prov = strings.Repeat("z", len(row.Prov))
		if zsrc, _, _ := buildExprRow(&zrow); zsrc != src {
			replayExprRow(c, &zrow)
		}
	}
}

// run MC_Expr and replay the rows accepted by the filter
func runExprRows(c *Check, keep exprFilter) {
	rows := make(chan *Row, 4096)
	var wg sync.WaitGroup
	for w := 0; w < runtime.NumCPU(); w++ {
		wg.Add(1)
		go func() {
			defer wg.Done()
			for row := range rows {
				func() {
					defer func() {
						if r := recover(); r != nil {
							c.fail(fmt.Sprintf("harness panic on row %s: %v", row.Raw, r))
						}
					}()
					replayExprRow(c, row)
				}()
			}
		}()
	}
	timeout := 5 * time.Minute
	if c.Tier == "thorough" {
		timeout = 30 * time.Minute
	}
	res, err := runTLC(tlcOpts{Module: "MC_Expr", Cfg: mcExprCfg(c.Tier), Timeout: timeout, OnRow: func(raw json.RawMessage) {
		var row Row
		if err := json.Unmarshal(raw, &row); err != nil {
			c.fail("bad row " + err.Error())
			return
		}
		row.Raw = raw
		var ops []string
		collectOps(row.E, &ops)
		if keep != nil && !keep(ops) {
			return
		}
		c.mu.Lock()
		c.behaviours++
		c.mu.Unlock()
		rows <- &row
	}})
	close(rows)
	wg.Wait()
	if res != nil {
		c.addTLC(res)
	}
	if err != nil {
		c.fail(err.Error())
		return
	}
	if res.Violation != "" {
		// a law of the reference specification failed: the oracle itself is inconsistent
		c.fail("specification law violated in MC_Expr: " + res.Violation + "\n" + lastLines(res.Output, 30))
	}
}

var _ = strings.Contains
var _ object.Object
