package main

import (
	"bufio"
	"context"
	_ "embed"
	"encoding/json"
	"fmt"
	"io"
	"os"
	"os/exec"
	"path/filepath"
	"sort"
	"strings"
	"time"
)

// Code -> spec on executions nobody wrote for this purpose: the repository's own test suite (root package
// and vm, which assembles byte code by hand, malformed programs included) is run in a scratch copy of /repo
// built with -tags verif and a recorder (suiterec/rec.go.txt) which logs every run of every machine
// instruction by instruction; the example scripts of the repository are run on their example documents;
// every recorded run must be a behaviour of Trace_VM, invariants evaluated at every step.

//go:embed suiterec/rec.go.txt
var suiteRecorder string

const suiteImporter = "//go:build verif\n\npackage %s\n\nimport _ \"github.com/skx/evalfilter/v2/internal/verifrec\"\n"

func copyTree(src, dst string) error {
	return filepath.Walk(src, func(p string, info os.FileInfo, err error) error {
		if err != nil {
			return err
		}
		rel, _ := filepath.Rel(src, p)
		if rel == ".git" {
			return filepath.SkipDir
		}
		target := filepath.Join(dst, rel)
		if info.IsDir() {
			return os.MkdirAll(target, 0o755)
		}
		if !info.Mode().IsRegular() {
			return nil
		}
		in, err := os.Open(p)
		if err != nil {
			return err
		}
		defer in.Close()
		out, err := os.Create(target)
		if err != nil {
			return err
		}
		defer out.Close()
		_, err = io.Copy(out, in)
		return err
	})
}

// recordSuite returns the programs and events recorded while the repository's tests ran
func recordSuite(c *Check) ([]*progDump, []traceEvent, int) {
	dir, err := os.MkdirTemp("", "efsuite-")
	if err != nil {
		c.fail(err.Error())
		return nil, nil, 0
	}
	defer os.RemoveAll(dir)
	src := filepath.Join(dir, "src")
	if err := copyTree("/repo", src); err != nil {
		c.fail("cannot copy /repo: " + err.Error())
		return nil, nil, 0
	}
	rec := filepath.Join(dir, "rec")
	_ = os.MkdirAll(rec, 0o755)
	_ = os.MkdirAll(filepath.Join(src, "internal", "verifrec"), 0o755)
	_ = os.WriteFile(filepath.Join(src, "internal", "verifrec", "rec.go"), []byte(suiteRecorder), 0o644)
	_ = os.WriteFile(filepath.Join(src, "zz_verifrec_test.go"), []byte(fmt.Sprintf(suiteImporter, "evalfilter_test")), 0o644)
	_ = os.WriteFile(filepath.Join(src, "vm", "zz_verifrec_test.go"), []byte(fmt.Sprintf(suiteImporter, "vm_test")), 0o644)
	ctx, cancel := context.WithTimeout(context.Background(), 20*time.Minute)
	defer cancel()
	cmd := exec.CommandContext(ctx, "go", "test", "-tags", "verif", "-vet=off", "-count=1", ".", "./vm")
	cmd.Dir = src
	cmd.Env = append(os.Environ(), "VERIF_REC_DIR="+rec, "GOFLAGS=-mod=mod", "GOPROXY=off", "GOSUMDB=off", "GOTOOLCHAIN=local")
	out, terr := cmd.CombinedOutput()
	if terr != nil {
		// the verdict of the repository's tests is not ours to give: what they executed is validated all the same
		fmt.Printf("NOTE: the repository's tests (built with -tags verif) did not pass: %s\n", truncate(lastLines(string(out), 3), 300))
	}
	files, _ := filepath.Glob(filepath.Join(rec, "progs-*.ndjson"))
	sort.Strings(files)
	var progs []*progDump
	var events []traceEvent
	runs := 0
	for _, pf := range files {
		off := len(progs)
		f, err := os.Open(pf)
		if err != nil {
			continue
		}
		sc := bufio.NewScanner(f)
		sc.Buffer(make([]byte, 1<<20), 1<<28)
		ids := map[int]bool{}
		for sc.Scan() {
			d := &progDump{}
			if json.Unmarshal(sc.Bytes(), d) != nil {
				continue
			}
			d.ID += off
			d.script, d.mode = "(a program of the repository's tests)", "suite"
			ids[d.ID] = true
			progs = append(progs, d)
		}
		f.Close()
		tf, err := os.Open(strings.Replace(pf, "progs-", "trace-", 1))
		if err != nil {
			continue
		}
		sc = bufio.NewScanner(tf)
		sc.Buffer(make([]byte, 1<<20), 1<<28)
		for sc.Scan() {
			var e traceEvent
			if json.Unmarshal(sc.Bytes(), &e) != nil {
				continue
			}
			if e.E == "run" {
				e.P += off
				runs++
			}
			events = append(events, e)
		}
		tf.Close()
	}
	// programs whose run was dropped (too long) stay in the list; harmless
	return progs, events, runs
}

// recordExamples runs the example scripts of the repository on their example documents (and on no document)
func recordExamples(c *Check, progs []*progDump, events []traceEvent) ([]*progDump, []traceEvent, int) {
	files, _ := filepath.Glob("/repo/_examples/scripts/*.script")
	more, _ := filepath.Glob("/repo/_examples/scripts/*.in")
	files = append(files, more...)
	sort.Strings(files)
	runs := 0
	for _, sf := range files {
		text, err := os.ReadFile(sf)
		if err != nil {
			continue
		}
		var doc interface{}
		if jb, err := os.ReadFile(strings.TrimSuffix(strings.TrimSuffix(sf, ".script"), ".in") + ".json"); err == nil {
			var m map[string]interface{}
			if json.Unmarshal(jb, &m) == nil {
				doc = m
			}
		}
		for _, opt := range []bool{true, false} {
			d, err := dumpPrepared(string(text), opt)
			if err != nil {
				continue
			}
			m, err := newMachine(string(text), nil, nil, opt, newResetCtx())
			if err != nil {
				continue
			}
			d.ID = len(progs) + 1
			d.script = filepath.Base(sf)
			progs = append(progs, d)
			tr := attachTracer(m)
			for _, obj := range []interface{}{doc, nil} {
				evs, _ := tr.tracedRun(m, d.ID, obj, 0)
				events = append(events, evs...)
				runs++
				if obj == nil {
					break
				}
			}
			detachTracer(m)
		}
	}
	return progs, events, runs
}

func suiteTraces(c *Check) {
	progs, events, runs := recordSuite(c)
	c.extra["suite_runs_recorded"] = runs
	progs, events, eruns := recordExamples(c, progs, events)
	c.extra["example_script_runs_recorded"] = eruns
	if len(events) == 0 {
		c.fail("nothing was recorded from the repository's tests")
		return
	}
	reached, total, violated, err := validateTrace(c, progs, events, []string{"PromptStop", "FramesSane", "NoUnderflow"})
	if err != nil {
		c.fail(err.Error())
		return
	}
	c.extra["suite_trace_events"] = len(events)
	if violated == "" && reached >= total {
		c.mu.Lock()
		c.traces += int64(runs + eruns)
		c.mu.Unlock()
		return
	}
	line := reached - 2
	if line < 0 {
		line = 0
	}
	if line >= len(events) {
		line = len(events) - 1
	}
	next := line + 1
	if next >= len(events) {
		next = len(events) - 1
	}
	// which run is it?
	where := ""
	for i := line; i >= 0; i-- {
		if events[i].E == "run" {
			for _, d := range progs {
				if d.ID == events[i].P {
					b, _ := json.Marshal(d.Bodies)
					where = d.script + " " + truncate(string(b), 400)
				}
			}
			break
		}
	}
	what := "step not allowed by the machine specification"
	if violated != "" {
		what = "invariant " + violated + " violated"
	}
	c.disagree(&Disagreement{Kind: "suite-trace-rejected", Script: where, Expected: "every step recorded while the repository's tests and example scripts run is a step of Trace_VM",
		Got: fmt.Sprintf("%s at trace line %d: %s (next: %s)", what, line+1, describeEvent(events[line]), describeEvent(events[next]))})
}
