package main

// C20: the embedding API (histories enumerated by MC_Api) and the command-line driver.

import (
	"bytes"
	"context"
	"encoding/json"
	"fmt"
	"os"
	"os/exec"
	"path/filepath"
	"strings"
	"sync"
	"time"

	"github.com/skx/evalfilter/v2/object"
)

func init() {
	checks["C20"] = checkC20
}

type apiStep struct {
	Act    string          `json:"act"`
	Obj    json.RawMessage `json:"obj"`
	NilObj bool            `json:"nilobj"`
	Name   string          `json:"name"`
	Val    json.RawMessage `json:"val"`
	Kind   json.RawMessage `json:"kind"`
	Exp    *Expect         `json:"exp"`
}

func replayApiRow(c *Check, row *Row) {
	var r struct {
		Prog     json.RawMessage `json:"prog"`
		Vars     json.RawMessage `json:"vars"`
		Fns      json.RawMessage `json:"fns"`
		Optimise bool            `json:"optimise"`
		Steps    []apiStep       `json:"steps"`
	}
	if err := json.Unmarshal(row.Raw, &r); err != nil {
		c.fail("bad row " + err.Error())
		return
	}
	src := (&renderer{elseIf: true}).program(r.Prog)
	key := src + "|" + string(r.Vars) + "|" + string(r.Fns) + fmt.Sprint(r.Optimise)
	for _, s := range r.Steps {
		key += "|" + s.Act + s.Name + string(s.Obj) + string(s.Val)
	}
	c.count(key, true)
	c.sample(map[string]interface{}{"script": src, "variables": r.Vars, "host_functions": r.Fns, "optimise": r.Optimise, "actions": len(r.Steps)})
	mode := "opt"
	if !r.Optimise {
		mode = "noopt"
	}
	vars, _ := rowVars(&Row{Vars: r.Vars})
	m, err := newMachine(src, vars, parseFns(r.Fns), r.Optimise, nil)
	if err != nil {
		c.disagree(&Disagreement{Kind: "prepare-failed", Script: src, Mode: mode, Expected: "accepted", Got: err.Error(), Row: row.Raw})
		return
	}
	for i, s := range r.Steps {
		where := fmt.Sprintf("action %d of %d: %s %s%s", i+1, len(r.Steps), s.Act, s.Name, string(s.Obj))
		det := map[string]interface{}{"where": where}
		switch s.Act {
		case "set":
			o, _ := mustVal(s.Val).Object()
			m.E.SetVariable(s.Name, o)
		case "fn":
			// AddFunction again under the same name: from now on the new function is the one which is called
			for _, f := range parseFns(json.RawMessage(fmt.Sprintf("[[%q,%s]]", s.Name, string(s.Kind)))) {
				m.addFunction(f)
			}
		case "get":
			var got object.Object
			func() {
				defer func() {
					if rec := recover(); rec != nil {
						c.disagree(&Disagreement{Kind: "panic", Script: src, Mode: mode, Expected: "GetVariable returns", Got: fmt.Sprint(rec), Row: row.Raw, Detail: det})
					}
				}()
				got = m.E.GetVariable(s.Name)
			}()
			exp := mustVal(s.Exp.Out)
			if ok, _ := exp.matches(got); !ok {
				c.disagree(&Disagreement{Kind: "getvariable", Script: src, Mode: mode, Expected: exp.String(), Got: describe(got), Row: row.Raw, Detail: det})
			}
		case "run", "exec":
			var obj interface{}
			if !s.NilObj {
				o, _ := objFromPairs(s.Obj)
				if o == nil {
					o = map[string]interface{}{}
				}
				obj = o
			}
			o := m.execAct(s.Act, obj)
			exp := mustVal(s.Exp.Out)
			if exp.IsSkip() {
				if o.Panic != nil {
					c.disagree(&Disagreement{Kind: "panic", Script: src, Mode: mode, Expected: "no panic", Got: o.describe(), Row: row.Raw, Detail: det})
				}
				return // unconstrained from here on
			}
			if kind, want, got := compareOut(exp, o); kind != "" {
				c.disagree(&Disagreement{Kind: s.Act + "-" + kind, Script: src, Mode: mode, Expected: want, Got: got, Row: row.Raw, Detail: det})
			}
			if len(s.Exp.Calls) > 0 {
				if want, got := describeCalls(expectedCalls(s.Exp.Calls)), describeCalls(o.Calls); want != got {
					c.disagree(&Disagreement{Kind: "host-calls", Script: src, Mode: mode, Expected: want, Got: got, Row: row.Raw, Detail: det})
				}
			}
			if ok, want, got := compareVars(m, s.Exp.Vars); !ok {
				c.disagree(&Disagreement{Kind: "vars", Script: src, Mode: mode, Expected: want, Got: got, Row: row.Raw, Detail: det})
			}
		}
	}
}

// ---- the command-line driver ---------------------------------------------------------------

func buildDriver() (string, error) {
	out := filepath.Join(verifRoot, ".bin", "evalfilter-cli")
	cmd := exec.Command("go", "build", "-o", out, "./cmd/evalfilter")
	cmd.Dir = "/repo"
	cmd.Env = append(os.Environ(), "GOFLAGS=-mod=mod", "GOPROXY=off", "GOSUMDB=off", "GOTOOLCHAIN=local")
	if b, err := cmd.CombinedOutput(); err != nil {
		return "", fmt.Errorf("building the driver: %v\n%s", err, b)
	}
	return out, nil
}

type driverCase struct {
	script string
	doc    string // JSON document ("" = none)
}

func runDriver(bin string, args []string) (string, int, bool) {
	ctx, cancel := context.WithTimeout(context.Background(), 20*time.Second)
	defer cancel()
	cmd := exec.CommandContext(ctx, bin, args...)
	var buf bytes.Buffer
	cmd.Stdout = &buf
	cmd.Stderr = &buf
	err := cmd.Run()
	code := 0
	if err != nil {
		if ee, ok := err.(*exec.ExitError); ok {
			code = ee.ExitCode()
		} else {
			code = -1
		}
	}
	return buf.String(), code, ctx.Err() != nil
}

// what the driver must print for a script on a document: from Execute in-process
func driverExpectation(cs driverCase, optimise bool) string {
	obj := make(map[string]interface{})
	if cs.doc != "" {
		if err := json.Unmarshal([]byte(cs.doc), &obj); err != nil {
			return "Error parsing JSON"
		}
	}
	// no wall clock here: a script that never ends is cut off after a number of instructions
	m, err := newMachine(cs.script, nil, nil, optimise, newResetCtx())
	if err != nil {
		return "Error compiling:"
	}
	m.countSteps(2000000)
	defer m.release()
	o := m.exec(obj)
	if o.Panic != nil {
		return "PANIC"
	}
	if o.Err != nil {
		return "Failed to run script: " + o.Err.Error()
	}
	if o.Out == nil {
		return "NIL"
	}
	return fmt.Sprintf("Script gave result type:%s value:%s - which is '%t'.", o.Out.Type(), o.Out.Inspect(), o.Out.True())
}

func checkDriver(c *Check, cases []driverCase) {
	bin, err := buildDriver()
	if err != nil {
		c.fail(err.Error())
		return
	}
	dir, err := os.MkdirTemp("", "efdriver-")
	if err != nil {
		c.fail(err.Error())
		return
	}
	defer os.RemoveAll(dir)
	var wg sync.WaitGroup
	sem := make(chan struct{}, 16)
	for i, cs := range cases {
		wg.Add(1)
		sem <- struct{}{}
		go func(i int, cs driverCase) {
			defer wg.Done()
			defer func() { <-sem }()
			sf := filepath.Join(dir, fmt.Sprintf("s%d.script", i))
			jf := filepath.Join(dir, fmt.Sprintf("o%d.json", i))
			_ = os.WriteFile(sf, []byte(cs.script), 0o644)
			if cs.doc != "" {
				_ = os.WriteFile(jf, []byte(cs.doc), 0o644)
			}
			// a script that ends is given a deadline it cannot miss on a loaded machine; one that never ends a short one
			dl := "10s"
			if strings.Contains(cs.script, "while ( true )") {
				dl = "400ms"
			}
			for _, flags := range [][]string{{}, {"-no-optimizer"}, {"-timeout", dl}, {"-no-optimizer", "-timeout", dl}} {
				if strings.Contains(cs.script, "while ( true )") && len(flags) < 2 {
					continue // without a deadline this script rightly never ends
				}
				args := []string{"run"}
				if cs.doc != "" {
					args = append(args, "-json", jf)
				}
				args = append(args, flags...)
				args = append(args, sf)
				optimise := !(len(flags) > 0 && flags[0] == "-no-optimizer")
				want := driverExpectation(cs, optimise)
				out, code, timedOut := runDriver(bin, args)
				c.count("driver|"+strings.Join(flags, " ")+"|"+cs.doc+"|"+cs.script, true)
				got := ""
				for _, line := range strings.Split(out, "\n") {
					// (the engine prints diagnostics of its own, some without a newline, in front of the line)
					for _, marker := range []string{"Script gave result", "Failed to run script", "Error compiling", "Error parsing JSON"} {
						if k := strings.Index(line, marker); k >= 0 {
							got = line[k:]
						}
					}
				}
				abnormal := timedOut || code != 0 || strings.Contains(out, "panic:") || strings.Contains(out, "goroutine ")
				agrees := got == want || (strings.HasPrefix(want, "Error compiling") && strings.HasPrefix(got, "Error compiling")) ||
					(strings.HasPrefix(want, "Error parsing JSON") && strings.HasPrefix(got, "Error parsing JSON")) ||
					(strings.HasPrefix(want, "Failed to run script") && strings.HasPrefix(got, "Failed to run script"))
				if abnormal || !agrees {
					c.disagree(&Disagreement{Kind: "driver", Script: cs.script, Mode: strings.Join(flags, " "), Expected: want + " and exit status 0",
						Got: fmt.Sprintf("%q exit=%d timed-out=%v", truncate(got+" || "+lastLines(out, 3), 300), code, timedOut), Detail: map[string]interface{}{"json": cs.doc}})
				}
			}
			// the other sub-commands terminate normally on any script
			for _, sub := range []string{"lex", "parse", "bytecode"} {
				out, code, timedOut := runDriver(bin, []string{sub, sf})
				c.count("driver|"+sub+"|"+cs.script, true)
				if timedOut || code != 0 || strings.Contains(out, "panic:") || strings.Contains(out, "goroutine ") {
					c.disagree(&Disagreement{Kind: "driver-" + sub, Script: cs.script, Expected: "normal termination (exit 0, no panic banner)",
						Got: fmt.Sprintf("exit=%d timed-out=%v %q", code, timedOut, truncate(lastLines(out, 4), 300))})
				}
			}
		}(i, cs)
	}
	wg.Wait()
}

func checkC20(c *Check) {
	c.rule = "MC_Api: three scripts (using / only calling a host function; returning a variable) x 14 variable values of every type x 9 host-function kinds (fresh value of four types, void, returns its first argument, returns an array made of the argument slice it was given, the engine's own true / null) x optimise on/off x counter variable set or not x all single post-Prepare actions, (quick: a fifth of) all pairs and a sample of triples over 16 actions (AddFunction again under the same name with another function; Run / Execute on three objects incl. nil, GetVariable of four names, SetVariable of three names incl. null, a name shadowing a field, and null under a name shadowing a field); every action's observation (Execute value, Run verdict = truth of it and failing iff it fails, host calls with arguments in order, GetVariable, all variables) is compared with EFApi/EFSemantics; the built cmd/evalfilter binary is run on scripts x JSON documents x {-no-optimizer, -timeout} and must print what Execute gives in-process on the decoded document and exit 0; lex / parse / bytecode must terminate normally on every script incl. malformed ones; distinct = distinct action sequence or driver invocation"
	c.assumptions = []string{"API misuse (Run before Prepare, Dump after a failed Prepare) is not generated", "the driver's JSON result line and debug output are not compared"}
	runRows(c, "MC_Api", stdCfg(c.Tier, "RunIsTruthOfExecute"), func(row *Row) {
		replayApiRow(c, row)
	})
	// driver corpus: scripts over JSON documents, incl. run-time faults, unknown kinds, malformed scripts and documents, results holding per-cent signs, files holding more than one document or trailing text
	docs := []string{`{"Name":"x","N":3,"Ok":true,"Tags":["a","b"],"Inner":{"k":1.5},"Nil":null}`, `{}`, ``, `{"N":-2.5,"Name":""}`, `{"N":[1,[2,3],{"a":null}],"Name":{"deep":{"deeper":[true]}}}`, `[1,2]`, `{"N":`,
		// files which are not ONE document: two documents, JSON lines, stray closers and trailing text
		`{"N":1,"Name":"one"}{"N":2,"Name":"two"}`, "{\"N\":1,\"Name\":\"one\"}\n{\"N\":2,\"Name\":\"two\"}\n", `{"N":1,"Name":"one"} }`, `{"N":1,"Name":"one"},`, `{"N":1,"Name":"one"} trailing`, "{\"N\":1}\n\n  \n"}
	scripts := []string{
		`return Name;`, `return N;`, `return N + 1;`, `return Ok;`, `return Tags;`, `return Inner;`, `return Nil;`, `return Missing;`,
		`return len(Tags) == 2 && Ok;`, `if ( N > 2 ) { return "big"; } return "small";`, `return 1 / 0;`, `return N["x"];`, `panic("boom");`,
		`foreach t in Tags { print(t, "\n"); } return false;`, `return √9;`, `return 3 +;`, `return "abc`, `function f(a) { return f(a); } return f(1);`,
		`x = 70000; x++; return x;`, `return "100%";`, `return ["93% full", "%d", Name];`, `return "%s %v %!" + "%";`, `return {"rate": "5%"};`, `return {"a": N, "b": [Ok, Name]};`, `return type(Inner) + type(Nil);`, `while ( true ) { }`, ``, `}`, `return Tags[5];`,
		`switch ( Name ) { case "x" { return 1; } default { return 2; } }`, `return 1.5 * 2;`, `return Name ~= /^X/i;`,
	}
	var cases []driverCase
	for si, s := range scripts {
		for di, d := range docs {
			if c.Tier == "quick" && (si+di)%2 == 1 {
				continue
			}
			cases = append(cases, driverCase{s, d})
		}
	}
	checkDriver(c, cases)
}
