package main

// Value encoding shared with the TLA+ specification (EFValues): tagged tuples
// as JSON arrays.  This file converts between that encoding, script literal
// text, evalfilter objects and host (Go) values, and compares an
// implementation object with an expected value.

import (
	"encoding/json"
	"fmt"
	"math"
	"math/big"
	"sort"
	"strconv"
	"strings"

	"github.com/skx/evalfilter/v2/object"
)

type Val struct {
	Tag   string
	I     int64
	Num   int64
	Den   int64
	Cps   []rune
	B     bool
	Elems []Val
	Pairs [][2]Val
	Flags string
}

func parseVal(raw json.RawMessage) (Val, error) {
	var parts []json.RawMessage
	if err := json.Unmarshal(raw, &parts); err != nil {
		return Val{}, fmt.Errorf("value %s: %v", raw, err)
	}
	if len(parts) == 0 {
		return Val{}, fmt.Errorf("empty value")
	}
	var v Val
	if err := json.Unmarshal(parts[0], &v.Tag); err != nil {
		return Val{}, fmt.Errorf("value tag %s: %v", raw, err)
	}
	cps := func(r json.RawMessage) ([]rune, error) {
		var xs []int64
		if err := json.Unmarshal(r, &xs); err != nil {
			return nil, err
		}
		out := make([]rune, len(xs))
		for i, x := range xs {
			out[i] = rune(x)
		}
		return out, nil
	}
	var err error
	switch v.Tag {
	case "I":
		err = json.Unmarshal(parts[1], &v.I)
	case "F", "Q":
		if err = json.Unmarshal(parts[1], &v.Num); err == nil {
			err = json.Unmarshal(parts[2], &v.Den)
		}
	case "S":
		v.Cps, err = cps(parts[1])
	case "B":
		err = json.Unmarshal(parts[1], &v.B)
	case "ANYOF":
		var es []json.RawMessage
		if err = json.Unmarshal(parts[1], &es); err == nil {
			for _, e := range es {
				x, e2 := parseVal(e)
				if e2 != nil {
					return Val{}, e2
				}
				v.Elems = append(v.Elems, x)
			}
		}
	case "N", "V", "ERR", "SKIP", "DIVERGE":
	case "A":
		var es []json.RawMessage
		if err = json.Unmarshal(parts[1], &es); err == nil {
			for _, e := range es {
				x, e2 := parseVal(e)
				if e2 != nil {
					return Val{}, e2
				}
				v.Elems = append(v.Elems, x)
			}
		}
	case "H":
		var ps [][]json.RawMessage
		if err = json.Unmarshal(parts[1], &ps); err == nil {
			for _, p := range ps {
				k, e1 := parseVal(p[0])
				w, e2 := parseVal(p[1])
				if e1 != nil || e2 != nil {
					return Val{}, fmt.Errorf("bad pair in %s", raw)
				}
				v.Pairs = append(v.Pairs, [2]Val{k, w})
			}
		}
	case "R":
		if v.Cps, err = cps(parts[1]); err == nil {
			err = json.Unmarshal(parts[2], &v.Flags)
		}
	default:
		err = fmt.Errorf("unknown tag %q", v.Tag)
	}
	return v, err
}

func mustVal(raw json.RawMessage) Val {
	v, err := parseVal(raw)
	if err != nil {
		panic(err)
	}
	return v
}

func (v Val) IsErr() bool  { return v.Tag == "ERR" }
func (v Val) IsSkip() bool { return v.Tag == "SKIP" }

func (v Val) rat() *big.Rat { return big.NewRat(v.Num, v.Den) }

// float64 the implementation must hold for this (float) value
func (v Val) float() float64 {
	switch v.Tag {
	case "F":
		f, _ := v.rat().Float64()
		return f
	case "Q":
		f, _ := v.rat().Float64()
		return math.Sqrt(f)
	case "I":
		return float64(v.I)
	}
	return math.NaN()
}

func quoteString(cps []rune) string {
	var sb strings.Builder
	sb.WriteByte('"')
	for _, c := range cps {
		switch c {
		case '"':
			sb.WriteString(`\"`)
		case '\\':
			sb.WriteString(`\\`)
		case '\n':
			sb.WriteString(`\n`)
		case '\r':
			sb.WriteString(`\r`)
		case '\t':
			sb.WriteString(`\t`)
		default:
			sb.WriteRune(c)
		}
	}
	sb.WriteByte('"')
	return sb.String()
}

// decimal spelling of an exact rational with a finite expansion ("2.0", "0.25")
func decimalSpelling(r *big.Rat) (string, bool) {
	for digits := 1; digits <= 12; digits++ {
		s := r.FloatString(digits)
		back, ok := new(big.Rat).SetString(s)
		if ok && back.Cmp(r) == 0 {
			return s, true
		}
	}
	return "", false
}

// Literal is the script text which denotes the value (fully bracketed where needed).
func (v Val) Literal() (string, bool) {
	switch v.Tag {
	case "I":
		if v.I < 0 {
			return "(-" + strconv.FormatInt(-v.I, 10) + ")", true
		}
		return strconv.FormatInt(v.I, 10), true
	case "F":
		r := v.rat()
		neg := r.Sign() < 0
		if neg {
			r = new(big.Rat).Neg(r)
		}
		s, ok := decimalSpelling(r)
		if !ok {
			return "", false
		}
		if neg {
			return "(-" + s + ")", true
		}
		return s, true
	case "S":
		return quoteString(v.Cps), true
	case "B":
		if v.B {
			return "true", true
		}
		return "false", true
	case "N":
		return "NULLV", true // an identifier nothing defines
	case "A":
		parts := []string{}
		for _, e := range v.Elems {
			s, ok := e.Literal()
			if !ok {
				return "", false
			}
			parts = append(parts, s)
		}
		return "[" + strings.Join(parts, ", ") + "]", true
	case "H":
		parts := []string{}
		for _, p := range v.Pairs {
			k, ok1 := p[0].Literal()
			w, ok2 := p[1].Literal()
			if !ok1 || !ok2 {
				return "", false
			}
			parts = append(parts, k+": "+w)
		}
		return "{" + strings.Join(parts, ", ") + "}", true
	case "R":
		if len(v.Cps) == 0 {
			return "", false // "//" starts a comment
		}
		var sb strings.Builder
		sb.WriteByte('/')
		for _, c := range v.Cps {
			if c == '/' {
				sb.WriteString(`\/`)
			} else {
				sb.WriteRune(c)
			}
		}
		sb.WriteByte('/')
		sb.WriteString(v.Flags)
		return sb.String(), true
	}
	return "", false
}

// Object builds a fresh evalfilter object holding the value (for SetVariable,
// host-function results).
func (v Val) Object() (object.Object, bool) {
	switch v.Tag {
	case "I":
		return &object.Integer{Value: v.I}, true
	case "F":
		return &object.Float{Value: v.float()}, true
	case "S":
		return &object.String{Value: string(v.Cps)}, true
	case "B":
		return &object.Boolean{Value: v.B}, true
	case "N":
		return &object.Null{}, true
	case "V":
		return &object.Void{}, true
	case "A":
		arr := &object.Array{Elements: []object.Object{}}
		for _, e := range v.Elems {
			o, ok := e.Object()
			if !ok {
				return nil, false
			}
			arr.Elements = append(arr.Elements, o)
		}
		return arr, true
	case "H":
		h := &object.Hash{Pairs: map[object.HashKey]object.HashPair{}}
		for _, p := range v.Pairs {
			k, ok1 := p[0].Object()
			w, ok2 := p[1].Object()
			if !ok1 || !ok2 {
				return nil, false
			}
			hk, ok := k.(object.Hashable)
			if !ok {
				return nil, false
			}
			h.Pairs[hk.HashKey()] = object.HashPair{Key: k, Value: w}
		}
		return h, true
	case "R":
		pat := string(v.Cps)
		if v.Flags != "" {
			pat = "(?" + v.Flags + ")" + pat
		}
		return &object.Regexp{Value: pat}, true
	}
	return nil, false
}

// Host builds the Go value which, placed in a map[string]interface{} object,
// the engine must convert to this value.  Not every value has one.
func (v Val) Host() (interface{}, bool) {
	switch v.Tag {
	case "I":
		return v.I, true
	case "F":
		return v.float(), true
	case "S":
		return string(v.Cps), true
	case "B":
		return v.B, true
	case "N":
		return nil, true
	case "A":
		out := []interface{}{}
		for _, e := range v.Elems {
			switch e.Tag {
			case "I", "F", "S", "B":
				h, _ := e.Host()
				out = append(out, h)
			default:
				return nil, false
			}
		}
		return out, true
	case "H":
		out := map[string]interface{}{}
		for _, p := range v.Pairs {
			if p[0].Tag != "S" {
				return nil, false
			}
			h, ok := p[1].Host()
			if !ok {
				return nil, false
			}
			out[string(p[0].Cps)] = h
		}
		return out, true
	}
	return nil, false
}

var typeNames = map[string]string{"I": "INTEGER", "F": "FLOAT", "Q": "FLOAT", "S": "STRING", "B": "BOOLEAN",
	"N": "NULL", "V": "VOID", "A": "ARRAY", "H": "HASH", "R": "REGEXP"}

// printed forms the value may have: one, except for hashes holding keys whose
// printed forms coincide (their relative order is unspecified but fixed).
func (v Val) Inspects() []string {
	switch v.Tag {
	case "I":
		return []string{strconv.FormatInt(v.I, 10)}
	case "F", "Q":
		return []string{strconv.FormatFloat(v.float(), 'f', -1, 64)}
	case "S":
		return []string{string(v.Cps)}
	case "B":
		return []string{strconv.FormatBool(v.B)}
	case "N":
		return []string{"null"}
	case "V":
		return []string{"void"}
	case "R":
		pat := string(v.Cps)
		if v.Flags != "" {
			pat = "(?" + v.Flags + ")" + pat
		}
		return []string{pat}
	case "A":
		outs := []string{""}
		for i, e := range v.Elems {
			var next []string
			for _, pre := range outs {
				for _, s := range e.Inspects() {
					sep := ""
					if i > 0 {
						sep = ", "
					}
					next = append(next, pre+sep+s)
				}
			}
			outs = capList(next)
		}
		for i := range outs {
			outs[i] = "[" + outs[i] + "]"
		}
		return outs
	case "H":
		// sort by printed key; permute within groups of equal printed keys
		type ent struct {
			k string
			p [2]Val
		}
		ents := []ent{}
		for _, p := range v.Pairs {
			ents = append(ents, ent{p[0].Inspects()[0], p})
		}
		sort.SliceStable(ents, func(i, j int) bool { return ents[i].k < ents[j].k })
		orders := [][]ent{{}}
		for i := 0; i < len(ents); {
			j := i
			for j < len(ents) && ents[j].k == ents[i].k {
				j++
			}
			group := ents[i:j]
			var next [][]ent
			for _, pre := range orders {
				for _, perm := range permutations(len(group)) {
					o := append([]ent{}, pre...)
					for _, idx := range perm {
						o = append(o, group[idx])
					}
					next = append(next, o)
				}
			}
			if len(next) > 64 {
				next = next[:64]
			}
			orders = next
			i = j
		}
		var outs []string
		for _, o := range orders {
			forms := []string{""}
			for i, e := range o {
				var next []string
				for _, pre := range forms {
					for _, s := range e.p[1].Inspects() {
						sep := ""
						if i > 0 {
							sep = ", "
						}
						next = append(next, pre+sep+e.k+": "+s)
					}
				}
				forms = capList(next)
			}
			for _, f := range forms {
				outs = append(outs, "{"+f+"}")
			}
		}
		return capList(outs)
	}
	return []string{"?" + v.Tag}
}

func capList(xs []string) []string {
	if len(xs) > 64 {
		return xs[:64]
	}
	return xs
}

func permutations(n int) [][]int {
	if n == 1 {
		return [][]int{{0}}
	}
	var out [][]int
	var rec func(cur []int, used []bool)
	rec = func(cur []int, used []bool) {
		if len(cur) == n {
			out = append(out, append([]int{}, cur...))
			return
		}
		for i := 0; i < n; i++ {
			if !used[i] {
				used[i] = true
				rec(append(cur, i), used)
				used[i] = false
			}
		}
	}
	rec(nil, make([]bool, n))
	return out
}

// describe an implementation object
func describe(o object.Object) string {
	if o == nil {
		return "NIL"
	}
	if bad := malformed(o, 1, nil); bad != "" {
		return "MALFORMED (" + bad + ")" // printing it would crash, or never end
	}
	return string(o.Type()) + " " + strconv.Quote(o.Inspect())
}

// matches decides whether the implementation object is the expected value:
// same type, same printed form (and, for floats, the correctly rounded value).
func (v Val) matches(o object.Object) (bool, string) {
	if o == nil {
		return false, "nil object"
	}
	if bad := malformed(o, 1, nil); bad != "" {
		return false, "MALFORMED (" + bad + ")"
	}
	want := typeNames[v.Tag]
	if string(o.Type()) != want {
		return false, fmt.Sprintf("type %s, want %s", o.Type(), want)
	}
	if v.Tag == "F" || v.Tag == "Q" {
		f, ok := o.ToInterface().(float64)
		if !ok {
			return false, "float object without float64"
		}
		w := v.float()
		if f != w && !(math.IsNaN(f) && math.IsNaN(w)) {
			return false, fmt.Sprintf("float %v, want %v", f, w)
		}
	}
	got := o.Inspect()
	if (v.Tag == "F") && v.Num == 0 && got == "-0" {
		return true, "" // IEEE negative zero: the model has a single zero
	}
	for _, s := range v.Inspects() {
		if s == got {
			return true, ""
		}
	}
	return false, fmt.Sprintf("printed %q, want %q", got, v.Inspects()[0])
}

func (v Val) String() string {
	if v.Tag == "ANYOF" {
		parts := []string{}
		for _, e := range v.Elems {
			parts = append(parts, e.String())
		}
		return "one of {" + strings.Join(parts, " | ") + "}"
	}
	switch v.Tag {
	case "ERR", "SKIP", "DIVERGE":
		return v.Tag
	}
	return typeNames[v.Tag] + " " + strconv.Quote(v.Inspects()[0])
}
