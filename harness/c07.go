package main

func init() {
	checks["C07"] = checkC07
}

// C07: no hidden state from one run to the next.
func checkC07(c *Check) {
	c.rule = "MC_History: two scripts (faults inside functions one and two calls deep; faults inside top-level loops) whose path is selected by the object field M in 0..10 - normal, division by zero, panic(), unknown function, argument mismatch, early return from nested loops (top level / in a function / two calls deep), bad index, type mismatch, foreach over a non-container, a run that never ends and is cut off by the deadline after 3000 instructions - run over every sequence of modes of length 2 and (quick: a quarter of) length 3 (thorough: all of length 3 and 4, a fifth of length 5) on ONE evaluator holding a persistent counter, a variable mutated from a large literal and from a float literal; the host registers its functions again before every run after the first (the new registration must be the one called); each run is compared with EFSemantics applied to (script, object, variables before the run) AND with a freshly prepared evaluator given those variables through SetVariable: result, host calls, variables, open scopes and number of instructions dispatched must be equal; distinct = distinct (script, mode sequence)"
	c.assumptions = []string{"the deadline is delivered through a context whose Done channel the harness re-arms between runs (the context is set before Prepare)", "instructions dispatched (verif step hook) is the measure of a run's cost"}
	runRows(c, "MC_History", stdCfg(c.Tier, "HistoryIndependent", "Counts"), func(row *Row) {
		replayProgRow(c, row, progOpts{freshCompare: true, stepBudget: 3000})
	})
}
