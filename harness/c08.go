package main

// C08: hostile scripts and odd objects produce errors, never a crash.

import (
	"context"
	"encoding/json"
	"fmt"
	"os"
	"os/exec"
	"strings"
	"sync"
	"time"
	"unsafe"

	"github.com/skx/evalfilter/v2"
)

func init() {
	checks["C08"] = checkC08
}

var lexemeText = map[string]string{"NUL": "\x00", "e-acute": "é", "emoji": "😀", "sqrt": "√"}

// hostileScript: every entry point must return; the evaluator must stay usable
func hostileScript(c *Check, src string, origin string) {
	c.count(src, true)
	var e *evalfilter.Eval
	var perr error
	var ppanic interface{}
	func() {
		defer func() { ppanic = recover() }()
		e = evalfilter.New(src)
		ctx, cancel := context.WithTimeout(context.Background(), 60*time.Millisecond)
		_ = cancel // the context must outlive Prepare; it expires on its own
		e.SetContext(ctx)
		perr = e.Prepare()
	}()
	if ppanic != nil {
		c.disagree(&Disagreement{Kind: "prepare-panicked", Script: src, Expected: "an error or nil from Prepare", Got: fmt.Sprint(ppanic), Detail: map[string]interface{}{"origin": origin}})
		return
	}
	if perr != nil {
		return
	}
	objs := []interface{}{nil, map[string]interface{}{"x": int64(3), "y": "s", "f": []interface{}{"a"}}}
	var classes []string
	for round := 0; round < 2; round++ {
		for _, obj := range objs {
			var out Outcome
			func() {
				defer func() {
					if r := recover(); r != nil {
						out.Panic = r
					}
				}()
				o, err := e.Execute(obj)
				out.Out, out.Err = o, err
			}()
			if out.Panic != nil {
				c.disagree(&Disagreement{Kind: "execute-panicked", Script: src, Expected: "a value or an error from Execute", Got: fmt.Sprint(out.Panic), Detail: map[string]interface{}{"origin": origin}})
				return
			}
			if out.Err == nil && out.Out == nil {
				c.disagree(&Disagreement{Kind: "nil-result", Script: src, Expected: "a value or an error from Execute", Got: "(nil, nil)", Detail: map[string]interface{}{"origin": origin}})
				return
			}
			cl := "value"
			if out.Err != nil {
				cl = "error"
			}
			classes = append(classes, cl)
			func() {
				defer func() {
					if r := recover(); r != nil {
						c.disagree(&Disagreement{Kind: "run-panicked", Script: src, Expected: "a verdict or an error from Run", Got: fmt.Sprint(r), Detail: map[string]interface{}{"origin": origin}})
					}
				}()
				_, _ = e.Run(obj)
			}()
		}
	}
	// usable afterwards: the second round repeats the first, unless the script is time- or state-dependent
	_ = classes
	if d := e.VerifEnvironment().VerifScopeDepth(); d != 0 {
		c.disagree(&Disagreement{Kind: "scopes-open", Script: src, Expected: "0 open scopes after the runs", Got: fmt.Sprint(d), Detail: map[string]interface{}{"origin": origin}})
	}
}

// ---- odd objects ---------------------------------------------------------------------------
type unexp struct {
	Name   string
	secret int
	hidden chan int
}
type embedded struct {
	unexp
	Extra *unexp
	Fn    func()
	Any   interface{}
	UP    unsafe.Pointer
	Arr   [2]int
	M     map[int]string
	MS    map[string]string
	PP    **int
}

// slices whose members the engine cannot convert
type oddSlices struct {
	Name  string
	Codes []uint16
	Rows  [][]string
	Kids  []*unexp
	Mixed []interface{}
	Gaps  []interface{}
}

func oddObjects() []interface{} {
	n := 5
	pn := &n
	var nilStruct *unexp
	var nilMap map[string]interface{}
	return []interface{}{
		nil, 5, "str", 2.5, true, []int{1, 2}, []interface{}{1, nil}, func() {}, make(chan int), pn, &pn,
		unexp{Name: "a", secret: 1}, &unexp{Name: "b"}, nilStruct, embedded{}, &embedded{Any: map[string]interface{}{"k": nil}, Extra: &unexp{}},
		map[int]interface{}{1: "x"}, map[string]int{"N": 1}, map[string]string{"Name": "x"}, map[interface{}]interface{}{"a": 1}, nilMap,
		map[string]interface{}{"Name": nil, "N": []interface{}{map[string]interface{}{"a": []interface{}{nil}}}, "F": func() {}, "C": make(chan int), "P": pn, "S": struct{ A int }{1}},
		oddSlices{Name: "o", Codes: []uint16{1, 2}, Rows: [][]string{{"a"}, {"b", "c"}}, Kids: []*unexp{{Name: "k"}, nil}, Mixed: []interface{}{nil, 1, struct{}{}, []interface{}{1}, map[string]interface{}{"a": 1}}, Gaps: []interface{}{nil}},
		&oddSlices{Codes: []uint16{}, Mixed: []interface{}{func() {}, make(chan int)}},
		map[string]interface{}{"Codes": []uint16{7}, "Rows": [][]string{{"a"}}, "Mixed": []interface{}{nil, []interface{}{nil}}, "Gaps": []interface{}{nil, nil}, "N": []interface{}{nil}},
		struct{}{}, [3]int{1, 2, 3}, complex(1, 2), uint8(7), time.Now(), &time.Time{}, struct{ T time.Time }{time.Unix(0, 0)},
	}
}

var oddScripts = []string{
	`return Name;`, `return N;`, `return type(Name) + type(N) + type(Extra);`, `return len(N);`, `foreach k, v in N { t(k); } return M;`,
	`return Name + secret;`, `return [Name, N, F, C, P, S, Any, UP, Arr, M, MS, PP, T];`, `x = N; x++; return x;`, `return N[0]["a"][0];`, `return !C && !P;`,
	`return Codes[0];`, `return Rows[0];`, `return Kids[1];`, `return Mixed[0];`, `return Gaps[0];`, `return N[0];`, `return [Codes, Rows, Kids, Mixed, Gaps];`, `return Mixed;`,
	`foreach row in Rows { return row; } return 0;`, `foreach m in Mixed { t(m); } return len(Mixed) + len(Codes) + len(Gaps);`, `return Gaps[0] == Mixed[0];`, `return string(Mixed) + string(Rows);`,
}

var faultScripts = []string{
	`return [1,2][5];`, `return "abc"[-1];`, `return {"a":1}[[1]];`, `return 1 / 0;`, `return 1 % 0;`, `return 1.5 % 0.2;`, `return 2 ** 4000;`, `return -9223372036854775807 - 10;`,
	`return 1 + "a";`, `return [1] + [2];`, `return null < 1;`, `return !~ 1;`, `x = y++; return x;`, `x = (z = 1); return x;`, `return t(1) + 1;`, `return f(t(1));`, `panic();`, `panic("boom", 1);`,
	`function f(a) { return f(a); } return f(1);`, `function f(a) { return g(a); } return f(1);`, `function f(a, b) { return a; } return f(1);`, `return nosuch();`,
	`return len();`, `return len(1, 2, 3);`, `return sort(1);`, `return join([1], 2);`, `return split(1, 2);`, `return match();`, `return replace("a", "(", "b");`, `return "a" ~= /(/;`,
	`return sprintf("%d %s %v %q %x", "a", 1, [1], {"a":1}, 2.5);`, `return sprintf("%!");`, `return sprintf("%d");`, `printf("%s\n"); return 1;`, `return hour("x") + 1;`, `return keys(1)[0];`,
	`foreach x in 5 { }`, `foreach x in null { }`, `foreach k, v in {"a":1} { foreach k, v in v { } }`, `switch ( [1] ) { case /a/ { return 1; } }`, `switch ( 1 ) { case [1], {"a":1} { } default { return 3; } }`,
	`return 1..0;`, `return "a".."b";`, `return 0..100000;`, `return {"a":1}.a.b.c;`, `return 1.a;`, `local x;`, `return √"a";`, `return √(-1);`, `return -"a";`,
	`return int("99999999999999999999");`, `return float("1e999");`, `return string({1:[{2:3}]});`, `while ( true ) { x = [x, x]; }`, `x = "a"; while ( true ) { x = x + x; }`,
}

// ---- size stress in a worker process ---------------------------------------------------------
func stressScript(kind string, n int) string {
	switch kind {
	case "paren":
		return "return " + strings.Repeat("(", n) + "1" + strings.Repeat(")", n) + ";"
	case "array":
		return "return " + strings.Repeat("[", n) + "1" + strings.Repeat("]", n) + ";"
	case "hash":
		return "return " + strings.Repeat(`{"a":`, n) + "1" + strings.Repeat("}", n) + ";"
	case "bang":
		return "return " + strings.Repeat("!", n) + "true;"
	case "minus":
		return "return " + strings.Repeat("- ", n) + "1;"
	case "if":
		return strings.Repeat("if (true) {", n) + strings.Repeat("}", n)
	case "sum":
		return "return 1" + strings.Repeat("+1", n) + ";"
	case "call":
		return "return " + strings.Repeat("len(", n) + "1" + strings.Repeat(")", n) + ";"
	case "index":
		return "a = [[1]]; return a" + strings.Repeat("[0]", n) + ";"
	case "comment":
		return strings.Repeat("// c\n", n) + "return 1;"
	case "string":
		return `return "` + strings.Repeat("a", n) + `";`
	case "statements":
		return strings.Repeat("x = 1; ", n) + "return x;"
	case "openparen":
		return "return " + strings.Repeat("(", n)
	case "ternary":
		return "return " + strings.Repeat("true ? (", n) + "1" + strings.Repeat(") : 2", n) + ";"
	case "funcs":
		return strings.Repeat("function f(a) {", n) + strings.Repeat("}", n)
	case "recurse":
		return fmt.Sprintf("function f(n) { if ( n < 1 ) { return 0; } return 1 + f(n - 1); } return f(%d);", n)
	}
	return "return 1;"
}

// c08Worker runs one stress case in this process: exit status 0 and "SURVIVED" mean the host lived
func c08Worker(kind string, n int) int {
	src := stressScript(kind, n)
	func() {
		defer func() { _ = recover() }()
		e := evalfilter.New(src)
		ctx, cancel := context.WithTimeout(context.Background(), 20*time.Second)
		defer cancel()
		e.SetContext(ctx)
		if err := e.Prepare(); err == nil {
			_, _ = e.Execute(nil)
			_, _ = e.Run(map[string]interface{}{"a": 1})
			old := os.Stdout
			if null, err := os.OpenFile(os.DevNull, os.O_WRONLY, 0); err == nil {
				os.Stdout = null
				_ = e.Dump()
				os.Stdout = old
				null.Close()
			}
		}
	}()
	fmt.Println("SURVIVED")
	return 0
}

func checkC08(c *Check) {
	c.Level = "exploration"
	c.rule = "MC_Hostile generates script texts as sequences of 87 lexemes (every token kind, regexp literals opening a group they do not close, brackets, quotes, backslash, NUL, multi-byte characters, keywords, literal fragments): every sequence of length 1-2 (thorough: 3) exhaustively by TLC, longer ones (to 14; thorough 40) in TLC's simulation mode (every candidate successor of every simulated step), each joined with and without spaces; plus every invalid text of MC_Reject; each text goes through Prepare and, if accepted, Execute and Run twice on two objects (a deadline of 60 ms set before Prepare): no call may panic into the harness, Execute may not return (nil, nil), no scope may stay open; 22 field-reading scripts x 32 odd objects (nil, non-struct values, slices whose members the engine cannot convert - []uint16, [][]string, []*T with a nil, []interface{} holding nil / struct / func / chan - read whole, by index and by foreach, structs with unexported / embedded / func / chan / unsafe / pointer-to-pointer fields, typed nil pointers, maps with non-string keys or non-interface values, deeply nested documents holding nils) through Execute and Run, followed by a run on a good object; 55 run-time fault scripts; size stress (quick: 9, thorough: 16 nesting / length shapes at 10^2..3*10^6, recursion depth to 10^6) each in its own worker process whose survival is the observation; distinct = distinct script text (x object)"
	c.assumptions = []string{"scripts whose single operation needs more memory than the host has are excluded; the memory-growing loops run under a 60 ms deadline", "Dump on an evaluator whose Prepare failed is host misuse and not exercised"}
	maxLen := 2
	simNum, simDepth := 30, 14
	if c.Tier == "thorough" {
		maxLen = 3
		simNum, simDepth = 300, 40
	}
	handler := func(row *Row) {
		var r struct {
			Toks []string `json:"toks"`
		}
		_ = json.Unmarshal(row.Raw, &r)
		parts := make([]string, len(r.Toks))
		for i, t := range r.Toks {
			if s, ok := lexemeText[t]; ok {
				parts[i] = s
			} else {
				parts[i] = t
			}
		}
		spaced := strings.Join(parts, " ")
		c.sample(map[string]interface{}{"script": spaced})
		hostileScript(c, spaced, "soup")
		if glued := strings.Join(parts, ""); glued != spaced {
			hostileScript(c, glued, "soup-glued")
		}
	}
	cfg := fmt.Sprintf("SPECIFICATION Spec\nCONSTANT MaxLen = %d\nINVARIANT NeverCrashes\nINVARIANT TypeOK\nINVARIANT Export\nCHECK_DEADLOCK FALSE\n", maxLen)
	t0 := time.Now()
	phase := func(n string) { fmt.Fprintf(os.Stderr, "C08 phase %s done at %.1fs\n", n, time.Since(t0).Seconds()) }
	runRows(c, "MC_Hostile", cfg, handler)
	phase("soup")
	// longer texts: TLC simulation
	simCfg := fmt.Sprintf("SPECIFICATION Spec\nCONSTANT MaxLen = %d\nINVARIANT NeverCrashes\nINVARIANT Export\nCHECK_DEADLOCK FALSE\n", simDepth)
	runRowsSim(c, "MC_Hostile", simCfg, simNum, simDepth, handler)
	phase("simulation")
	// the invalid texts of MC_Reject
	runRows(c, "MC_Reject", stdCfg(c.Tier, "ReasonsHold"), func(row *Row) {
		var r struct {
			Bad    []string `json:"bad"`
			Prefix []string `json:"prefix"`
		}
		_ = json.Unmarshal(row.Raw, &r)
		if len(r.Bad) > 0 {
			hostileScript(c, strings.Join(r.Bad, " "), "reject")
		}
		if len(r.Prefix) > 0 {
			hostileScript(c, strings.Join(r.Prefix, " "), "truncation")
		}
	})
	phase("reject")
	// run-time faults
	for _, s := range faultScripts {
		hostileScript(c, s, "fault")
	}
	phase("faults")
	// odd objects
	good := map[string]interface{}{"Name": "ok", "N": int64(1)}
	for _, s := range oddScripts {
		for _, opt := range []bool{true, false} {
			m, err := newMachine(s, nil, []FnSpec{{Name: "t", Kind: "log"}}, opt, nil)
			if err != nil {
				c.fail("odd-object script rejected: " + s + ": " + err.Error())
				continue
			}
			for oi, obj := range oddObjects() {
				c.count(fmt.Sprintf("odd|%s|%d", s, oi), true)
				for _, act := range []string{"exec", "run"} {
					o := m.execAct(act, obj)
					if o.Panic != nil {
						c.disagree(&Disagreement{Kind: act + "-panicked", Script: s, Expected: "a value or an error", Got: fmt.Sprint(o.Panic), Detail: map[string]interface{}{"object": fmt.Sprintf("%T", obj)}})
					} else if o.Err == nil && o.Out == nil {
						c.disagree(&Disagreement{Kind: "nil-result", Script: s, Expected: "a value or an error", Got: "(nil, nil)", Detail: map[string]interface{}{"object": fmt.Sprintf("%T", obj)}})
					}
				}
				// still usable
				o := m.exec(good)
				if o.Panic != nil || o.Idle != "" || o.Scopes != 0 {
					c.disagree(&Disagreement{Kind: "unusable-afterwards", Script: s, Expected: "a normal run on a good object", Got: o.describe() + " " + o.Idle, Detail: map[string]interface{}{"object": fmt.Sprintf("%T", obj)}})
				}
			}
		}
	}
	phase("odd")
	// size stress, each in its own process
	sizes := []int{100, 1000000}
	kinds := []string{"paren", "array", "minus", "sum", "call", "openparen", "recurse", "comment", "string"}
	if c.Tier == "thorough" {
		sizes = []int{100, 10000, 100000, 1000000, 3000000}
		kinds = []string{"paren", "array", "hash", "bang", "minus", "if", "sum", "call", "index", "comment", "string", "statements", "openparen", "ternary", "funcs", "recurse"}
	}
	self, _ := os.Executable()
	var wg sync.WaitGroup
	sem := make(chan struct{}, 8)
	for _, k := range kinds {
		for _, n := range sizes {
			wg.Add(1)
			sem <- struct{}{}
			if k == "string" && n > 200000 {
				n = 200000 // the lexer builds literals quadratically: long, but not a crash
			}
			if k == "comment" && n == 1000000 {
				n = 3000000 // a comment costs less stack than a bracket
			}
			go func(k string, n int) {
				defer wg.Done()
				defer func() { <-sem }()
				ctx, cancel := context.WithTimeout(context.Background(), 10*time.Minute)
				defer cancel()
				cmd := exec.CommandContext(ctx, self, "c08worker", k, fmt.Sprint(n))
				out, err := cmd.CombinedOutput()
				c.count(fmt.Sprintf("stress|%s|%d", k, n), true)
				if ctx.Err() != nil {
					c.fail(fmt.Sprintf("stress worker %s %d did not finish in 10 minutes", k, n))
					return
				}
				if err != nil || !strings.Contains(string(out), "SURVIVED") {
					c.disagree(&Disagreement{Kind: "process-died", Script: fmt.Sprintf("%s nested/repeated %d times (%.60s...)", k, n, stressScript(k, 8)), Expected: "Prepare/Execute/Run/Dump return", Got: fmt.Sprintf("%v: %s", err, truncate(lastLines(string(out), 6), 400))})
				}
			}(k, n)
		}
	}
	wg.Wait()
	phase("stress")
}
