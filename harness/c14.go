package main

// C14: the real lexer's token stream for every enumerated character string
// and layout must be the stream EFLexer prescribes; single-literal inputs are
// also executed and must denote the spelled value.

import (
	"encoding/json"
	"fmt"
	"regexp"
	"strconv"
	"strings"

	"github.com/skx/evalfilter/v2/lexer"
	"github.com/skx/evalfilter/v2/token"
)

func init() {
	checks["C14"] = checkC14
}

type lexTok struct {
	Type string
	Lit  string
}

// lexAll runs the real lexer with a watchdog on the number of NextToken calls
func lexAll(text string) (toks []lexTok, terminated bool) {
	l := lexer.New(text)
	limit := len([]rune(text)) + 3
	for i := 0; i < limit; i++ {
		t := l.NextToken()
		toks = append(toks, lexTok{string(t.Type), t.Literal})
		if t.Type == token.EOF || t.Type == token.ILLEGAL {
			return toks, true
		}
	}
	return toks, false
}

func cpsToString(raw json.RawMessage) string {
	var xs []int64
	_ = json.Unmarshal(raw, &xs)
	rs := make([]rune, len(xs))
	for i, x := range xs {
		rs[i] = rune(x)
	}
	return string(rs)
}

func describeToks(ts []lexTok) string {
	parts := []string{}
	for _, t := range ts {
		if t.Type == "ILLEGAL" || t.Type == "EOF" {
			parts = append(parts, t.Type)
		} else {
			parts = append(parts, t.Type+":"+strconv.Quote(t.Lit))
		}
	}
	return strings.Join(parts, " ")
}

func checkC14(c *Check) {
	c.rule = "MC_Lex: (1) every string of length 1..4 (thorough: 5) over an 18-character alphabet (letters incl. escape letter n and flag letters i m, digits 1 0, '.', both quotes, backslash, '/', newline, space, '#', a multi-byte letter, brackets, '=') and every string of length 1..5 (thorough: 6) over a second alphabet of both quotes, backslash, CR, LF, TAB, a, n (every layout character behind a backslash inside and outside a literal) with the token stream EFLexer prescribes (types and literals; the stream stops at the first ILLEGAL); (2) triples of 17 token spellings (identifiers, keyword, integer, decimal, strings holding quotes and comment openers, regexp with an escaped slash and a flag, operators) with 7 separators (space, newline, tab, comments, CR LF, a comment holding a quote) in every gap and at both ends: same tokens as the plain layout; inputs that are one literal are also executed and must denote the spelled value; a watchdog bounds the number of NextToken calls by the input length; regexp literals whose pattern begins with or contains a group carrying flags of its own (15 patterns x 4 flag sets x 12 subjects; oracle: the host's regexp package on (?flags)pattern); MC_Lits: scripts writing several literals which print alike (\"2.5\" and 2.5; \"100000\", 100000 and 100000.0; \"a.c\" and /a.c/; ...) in every order, each used as what it is, run twice; distinct = distinct input text"
	c.assumptions = []string{"a '/' is division after an identifier, a number, ')' or ']' and opens a regexp elsewhere", "what follows an ILLEGAL token is not compared", "only insertion of layout is tested, and comments are inserted after white space"}
	type lexRow struct {
		K    string            `json:"k"`
		Cs   json.RawMessage   `json:"cs"`
		Toks []json.RawMessage `json:"toks"`
	}
	runLitRows(c)
	runRegexpLiterals(c)
	runRows(c, "MC_Lex", stdCfg(c.Tier, "LayoutInvariant", "Terminates", "WellEnded"), func(row *Row) {
		var r lexRow
		if err := json.Unmarshal(row.Raw, &r); err != nil {
			c.fail("bad row " + err.Error())
			return
		}
		text := cpsToString(r.Cs)
		var want []lexTok
		for _, t := range r.Toks {
			parts := asList(t)
			want = append(want, lexTok{asString(parts[0]), cpsToString(parts[1])})
		}
		c.count(text, true)
		c.sample(map[string]interface{}{"text": text, "tokens": describeToks(want)})
		got, terminated := lexAll(text)
		if !terminated {
			c.disagree(&Disagreement{Kind: "lexer-does-not-terminate", Script: text, Expected: describeToks(want), Got: describeToks(got), Row: row.Raw})
			return
		}
		ok := len(got) == len(want)
		if ok {
			for i := range got {
				if got[i].Type != want[i].Type {
					ok = false
				} else if got[i].Type != "ILLEGAL" && got[i].Type != "EOF" && got[i].Lit != want[i].Lit {
					ok = false
				}
			}
		}
		if !ok {
			c.disagree(&Disagreement{Kind: "tokens", Script: text, Expected: describeToks(want), Got: describeToks(got), Row: row.Raw})
			return
		}
		// a single literal: it must denote what it spells
		if len(want) == 2 && want[1].Type == "EOF" {
			var exp *Val
			switch want[0].Type {
			case "STRING":
				exp = &Val{Tag: "S", Cps: []rune(want[0].Lit)}
			case "INT":
				if n, err := strconv.ParseInt(want[0].Lit, 10, 64); err == nil {
					exp = &Val{Tag: "I", I: n}
				}
			}
			if exp != nil {
				src := "return " + text + "\n;"
				for _, opt := range []bool{true, false} {
					m, err := newMachine(src, nil, nil, opt, nil)
					if err != nil {
						c.disagree(&Disagreement{Kind: "literal-rejected", Script: src, Expected: exp.String(), Got: err.Error(), Row: row.Raw})
						continue
					}
					o := m.exec(nil)
					if kind, w, g := compareOut(*exp, o); kind != "" {
						c.disagree(&Disagreement{Kind: "literal-denotation", Script: src, Expected: w, Got: g, Row: row.Raw})
					}
				}
			}
		}
	})
}

// A regexp literal denotes its pattern plus its i / m flags - also when the pattern itself begins with a group
// that carries flags of its own.  The oracle is the host's regexp package applied to "(?flags)pattern" (trusted);
// the subjects hold no blanks or line breaks, so that what the test does with those plays no part.
func runRegexpLiterals(c *Check) {
	patterns := []string{"(?i:ab)c", "(?i:ab)", "(?:ab|cd)e", "(?m:^ab)c", "(?i-m:ab)c", "(?i)abc", "a(?i:b)c", "(?s:a.c)", "(ab)+c", "(?i:a)(?:b)c", "(?:a)(?i:bc)", "(?im:^abc$)", "(?-i:ab)c", "abc", "^(?i:ab)C$"}
	flags := []string{"", "i", "m", "im"}
	subjects := []string{"abc", "ABC", "ABc", "aBC", "abC", "cde", "CDe", "xabc", "ababc", "ab", "AB", "aXc"}
	for _, p := range patterns {
		for _, f := range flags {
			full := p
			if f != "" {
				full = "(?" + f + ")" + p
			}
			re, err := regexp.Compile(full)
			if err != nil {
				continue
			}
			for _, s := range subjects {
				src := fmt.Sprintf("return %s ~= /%s/%s;", quoteString([]rune(s)), p, f)
				want := fmt.Sprintf("BOOLEAN \"%v\"", re.MatchString(s))
				c.count("relit|"+src, true)
				for _, opt := range []bool{true, false} {
					m, err := newMachine(src, nil, nil, opt, nil)
					if err != nil {
						c.disagree(&Disagreement{Kind: "literal-rejected", Script: src, Expected: want, Got: err.Error()})
						break
					}
					if got := m.exec(nil).class(); got != want {
						c.disagree(&Disagreement{Kind: "literal-denotation", Script: src, Mode: map[bool]string{true: "opt", false: "noopt"}[opt], Expected: want + " (the pattern " + full + ")", Got: got})
					}
				}
			}
		}
	}
}

// literals spelled alike (a string, an integer, a decimal, a regexp) in one script: each denotes its own value
func runLitRows(c *Check) {
	cfg := "SPECIFICATION Spec\nINVARIANT Specified\nINVARIANT Export\nCHECK_DEADLOCK FALSE\n"
	runRows(c, "MC_Lits", cfg, func(row *Row) {
		replayProgRow(c, row, progOpts{})
	})
}

var _ = fmt.Sprint
