package main

// Demonstrating the binding between specification and code: a recorded trace
// is accepted; the same trace with one field corrupted, or one step removed,
// is rejected; a replayed row whose expectation is falsified is reported.

import (
	"encoding/json"
	"fmt"
	"strings"
)

func init() {
	checks["selftest"] = selfTest
}

func selfTest(c *Check) {
	c.Level = "other"
	c.rule = "binding self-test"
	src := `function f(a) { foreach c in "xy" { if ( c == "y" ) { return a + 1; } } return 0; } n = 0; while ( n < 2 ) { n = n + f(n); } return n;`
	d, err := dumpPrepared(src, true)
	if err != nil {
		c.fail("selftest: " + err.Error())
		return
	}
	d.ID = 1
	m, err := newMachine(src, nil, nil, true, newResetCtx())
	if err != nil {
		c.fail("selftest: " + err.Error())
		return
	}
	tr := attachTracer(m)
	evs, o := tr.tracedRun(m, 1, nil, 0)
	detachTracer(m)
	if o.Err != nil {
		c.fail("selftest: run failed: " + o.describe())
		return
	}
	check := func(name string, events []traceEvent, wantAccept bool) {
		reached, total, violated, err := validateTrace(c, []*progDump{d}, events, []string{"PromptStop", "FramesSane", "NoUnderflow"})
		if err != nil {
			c.fail("selftest " + name + ": " + err.Error())
			return
		}
		accepted := violated == "" && reached >= total
		fmt.Printf("selftest %-28s accepted=%v (reached %d of %d, violated %q)\n", name, accepted, reached, total, violated)
		if accepted != wantAccept {
			c.fail(fmt.Sprintf("selftest %s: accepted=%v, want %v", name, accepted, wantAccept))
		}
		c.count("selftest|"+name, true)
	}
	check("recorded trace", evs, true)
	// corrupt one instruction pointer
	bad := append([]traceEvent{}, evs...)
	for i := range bad {
		if bad[i].E == "step" && i > len(bad)/2 {
			bad[i].IP += 1
			break
		}
	}
	check("one ip corrupted", bad, false)
	// corrupt one stack height
	bad = append([]traceEvent{}, evs...)
	for i := range bad {
		if bad[i].E == "step" && i > len(bad)/3 {
			bad[i].SD += 1
			break
		}
	}
	check("one stack height corrupted", bad, false)
	// corrupt one logged value: the result of an addition
	bad = append([]traceEvent{}, evs...)
	for i := range bad {
		if i > 0 && bad[i].E == "step" && bad[i-1].E == "step" && bad[i-1].Op == 16 && strings.HasPrefix(string(bad[i].Tos), `["I",`) {
			bad[i].Tos = json.RawMessage(`["I",4242]`)
			break
		}
	}
	check("one computed value corrupted", bad, false)
	// drop one step
	bad = nil
	dropped := false
	for i, e := range evs {
		if !dropped && e.E == "step" && i > 10 {
			dropped = true
			continue
		}
		bad = append(bad, e)
	}
	check("one step dropped", bad, false)
	// a cancellation followed by more steps
	bad = nil
	for i, e := range evs {
		bad = append(bad, e)
		if i == 5 {
			bad = append(bad, traceEvent{E: "cancel"})
		}
	}
	check("steps after a cancellation", bad, false)

	// replay comparator: a falsified expectation must be reported
	row := &Row{K: "self", Prov: "ll"}
	row.E = json.RawMessage(`["bin","+",["lit",["I",1]],["lit",["I",2]]]`)
	row.Exp = json.RawMessage(`["I",4]`)
	row.Raw = row.E
	probe := newCheck("selftest-probe", c.Tier, c.Seed)
	probe.reported = 1000 // no replay files, no VIOLATION lines
	replayExprRow(probe, row)
	fmt.Printf("selftest %-28s disagreements=%d\n", "falsified expectation", probe.violations)
	if probe.violations == 0 {
		c.fail("selftest: the replay comparator accepted 1 + 2 = 4")
	}
	row.Exp = json.RawMessage(`["I",3]`)
	probe2 := newCheck("selftest-probe", c.Tier, c.Seed)
	probe2.reported = 1000
	replayExprRow(probe2, row)
	if probe2.violations != 0 {
		c.fail("selftest: the replay comparator rejected 1 + 2 = 3")
	}
	// the synchronisation trace specification: a disciplined pair of goroutines is accepted; with one goroutine's
	// lock events removed, or one unlock removed, it is rejected
	mkConc := func(dropLocksOf int, dropUnlockOf int) string {
		var sb strings.Builder
		for g := 1; g <= 2; g++ {
			evs := []concEvent{{G: g, E: "lock", X: "S", O: "S"}, {G: g, E: "wr", X: "S.vm", O: "S"}, {G: g, E: "rd", X: "S.n", O: "S", C: true},
				{G: g, E: "wr", X: "S.n", O: "S", C: true}, {G: g, E: "clock", X: "cache-lock"}, {G: g, E: "crd", X: "cache"}, {G: g, E: "cunlock", X: "cache-lock"},
				{G: g, E: "unlock", X: "S", O: "S"}}
			for _, e := range evs {
				if g == dropLocksOf && (e.E == "lock" || e.E == "unlock") {
					continue
				}
				if g == dropUnlockOf && e.E == "unlock" {
					continue
				}
				b, _ := json.Marshal(e)
				sb.Write(b)
				sb.WriteByte('\n')
			}
		}
		return sb.String()
	}
	concCfg := "SPECIFICATION Spec\nCONSTANT Events <- Recorded\nINVARIANT NoDataRace\nINVARIANT NoLostUpdate\nINVARIANT MutualExclusion\nINVARIANT Balanced\nINVARIANT NoDeadlock\nINVARIANT LockDiscipline\nCHECK_DEADLOCK FALSE\n"
	for _, tc := range []struct {
		name       string
		events     string
		wantAccept bool
	}{{"conc: disciplined goroutines", mkConc(0, 0), true}, {"conc: one goroutine unlocked", mkConc(2, 0), false}, {"conc: an unlock missing", mkConc(0, 1), false}} {
		res, err := runTLC(tlcOpts{Module: "Trace_Conc", Cfg: concCfg, Extra: map[string]string{"conc.ndjson": tc.events}})
		if err != nil {
			c.fail("selftest " + tc.name + ": " + err.Error())
			continue
		}
		accepted := res.Violation == ""
		fmt.Printf("selftest %-28s accepted=%v (violated %q)\n", tc.name, accepted, res.Violation)
		if accepted != tc.wantAccept {
			c.fail(fmt.Sprintf("selftest %s: accepted=%v, want %v", tc.name, accepted, tc.wantAccept))
		}
		c.count("selftest|"+tc.name, true)
	}
	c.extra["explanation"] = "binding self-test: recorded trace accepted; corrupted ip / stack height / dropped step / steps after cancel rejected; falsified replay expectation reported; Trace_Conc accepts disciplined goroutines and rejects a goroutine without its lock events and a missing unlock"
	c.sample("selftest")
}
