package main

// Book-keeping common to every property check: counters for the evidence
// file, known-finding matching, replay files and the VIOLATION / KNOWN-FINDING
// lines, exit status.

import (
	"crypto/sha1"
	"encoding/hex"
	"encoding/json"
	"fmt"
	"os"
	"path/filepath"
	"regexp"
	"sort"
	"strings"
	"sync"
	"time"
)

const verifRoot = "/verif"

type Disagreement struct {
	Property string                 `json:"property"`
	Kind     string                 `json:"kind"`   // e.g. "value", "error-expected", "opt-diff", "panic", "calls", "vars"
	Script   string                 `json:"script"` // script text, when there is one
	Mode     string                 `json:"mode"`   // "opt" | "noopt" | ""
	Expected string                 `json:"expected"`
	Got      string                 `json:"got"`
	Detail   map[string]interface{} `json:"detail,omitempty"`
	Row      json.RawMessage        `json:"row,omitempty"`
}

type Finding struct {
	Status   string                 `json:"status"`
	Property string                 `json:"property"`
	ID       string                 `json:"id"`
	What     string                 `json:"what"`
	Match    map[string]interface{} `json:"match"`
	Witness  string                 `json:"witness"`
}

// matchers for the open findings, keyed by finding id.  They are deliberately
// narrow: a different violation of the same property is still reported.
var reIdentOPTIMIZE = regexp.MustCompile(`(^|[^A-Za-z0-9_$])OPTIMIZE([^A-Za-z0-9_$]|$)`)

var findingMatchers = map[string]func(d *Disagreement) bool{
	"sqrt-fold-type": func(d *Disagreement) bool {
		// The script applies the root directly to an integer literal which is a perfect
		// square: optimised, that sub-expression is an INTEGER where the language says
		// FLOAT.  Matched: the two modes differ, or the optimised run alone deviates
		// from the specification while the unoptimised run agrees with it.
		if !rootOfSquareLiteral(d.Script) {
			return false
		}
		if d.Kind == "opt-diff" {
			return true
		}
		if d.Mode == "opt" && d.Detail != nil && d.Detail["other_mode_agrees_with_spec"] == true {
			return true
		}
		return false
	},
	"optimize-variable-visible": func(d *Disagreement) bool {
		return (d.Kind == "opt-diff" || d.Kind == "vars-opt-diff") && reIdentOPTIMIZE.MatchString(d.Script)
	},
	"switch-value-reevaluated": func(d *Disagreement) bool {
		// only the rows whose switch value is the counting host function, and only the observations which the
		// repeated evaluation changes (which arm runs, how often nx is called, what the script returns)
		if !reSwitchNx.MatchString(d.Script) {
			return false
		}
		switch d.Kind {
		case "calls", "value", "vars", "calls-opt-diff":
			return true
		}
		return false
	},
	"statement-in-operand-position": func(d *Disagreement) bool {
		return d.Kind == "underflow-static" && d.Detail != nil && d.Detail["cause"] == "valueless-operand"
	},
}

var reSwitchNx = regexp.MustCompile(`switch \( \(?nx\(\)`)

// rootOfSquareLiteral: the script applies the root to an integer literal, or to a
// bracketed expression made of integer literals and + - * / only (which the optimizer
// folds to one first).
func rootOfSquareLiteral(script string) bool {
	rs := []rune(script)
	for i, r := range rs {
		if r != '√' {
			continue
		}
		j := i + 1
		for j < len(rs) && rs[j] == ' ' {
			j++
		}
		depth, k, digits := 0, j, 0
		for ; k < len(rs); k++ {
			ch := rs[k]
			switch {
			case ch == '(':
				depth++
			case ch == ')':
				depth--
			case ch >= '0' && ch <= '9':
				digits++
			case ch == ' ' || ch == '+' || ch == '-' || ch == '*' || ch == '/':
				if depth == 0 {
					goto done
				}
			default:
				if depth > 0 {
					digits = 0 // something else inside the brackets: not a constant expression
				}
				goto done
			}
			if depth < 0 {
				break
			}
			if depth == 0 && (ch == ')' || (ch >= '0' && ch <= '9' && (k+1 >= len(rs) || rs[k+1] < '0' || rs[k+1] > '9'))) {
				k++
				break
			}
		}
	done:
		if digits > 0 && depth <= 0 {
			return true
		}
	}
	return false
}

type Check struct {
	Prop  string
	Tier  string
	Seed  int64
	Level string

	mu           sync.Mutex
	start        time.Time
	evaluations  int64
	distinct     map[[8]byte]struct{}
	skipRows     int64
	samples      []interface{}
	violations   int
	reported     int
	knownHits    map[string]int
	findings     []Finding
	states       int64
	transitions  int64
	traces       int64
	behaviours   int64
	exhaustive   bool
	rule         string
	assumptions  []string
	extra        map[string]interface{}
	tlcCmds      []string
	inconclusive string
	byKind       map[string]int
	kindExample  map[string]string
}

func newCheck(prop, tier string, seed int64) *Check {
	c := &Check{Prop: prop, Tier: tier, Seed: seed, Level: "model_checking", start: time.Now(),
		distinct: map[[8]byte]struct{}{}, knownHits: map[string]int{}, extra: map[string]interface{}{}, exhaustive: true}
	b, err := os.ReadFile(filepath.Join(verifRoot, "known_findings.json"))
	if err == nil {
		var all []Finding
		if json.Unmarshal(b, &all) == nil {
			for _, f := range all {
				if f.Status == "open" {
					c.findings = append(c.findings, f)
				}
			}
		}
	}
	return c
}

// tiers in which a check enumerates only a sample of its module's finite space (modular filters
// in the Next relation, every n-th program, a subset of cancellation points)
var sampledTiers = map[string][]string{
	"C01": {"quick"},
	"C02": {"quick"},
	"C03": {"quick"},
	"C04": {"quick"},
	"C05": {"quick"},
	"C07": {"quick", "thorough"},
	"C08": {"quick", "thorough"},
	"C09": {"quick"},
	"C12": {"quick"},
	"C13": {"thorough"},
	"C16": {"quick"},
	"C17": {"quick"},
	"C18": {"quick"},
	"C19": {"quick", "thorough"},
	"C20": {"quick", "thorough"},
}

func (c *Check) addTLC(r *tlcResult) {
	c.mu.Lock()
	defer c.mu.Unlock()
	c.states += r.Distinct
	c.transitions += r.Generated
	c.tlcCmds = append(c.tlcCmds, r.Cmd)
}

// count one evaluated case; key identifies it for the distinct count; nontrivial
// says whether it carries an expectation (not SKIP) and a non-empty program
func (c *Check) count(key string, nontrivial bool) {
	c.mu.Lock()
	defer c.mu.Unlock()
	c.evaluations++
	if !nontrivial {
		c.skipRows++
		return
	}
	h := sha1.Sum([]byte(key))
	var k [8]byte
	copy(k[:], h[:8])
	c.distinct[k] = struct{}{}
}

func (c *Check) sample(s interface{}) {
	c.mu.Lock()
	defer c.mu.Unlock()
	n := len(c.samples)
	// keep the first two, then every so often up to eight
	if n < 2 || (n < 8 && c.evaluations%997 == 0) {
		c.samples = append(c.samples, s)
	}
}

func (c *Check) fail(reason string) {
	c.mu.Lock()
	defer c.mu.Unlock()
	if c.inconclusive == "" {
		c.inconclusive = reason
	}
}

// report a disagreement reproduced on the real code
func (c *Check) disagree(d *Disagreement) {
	d.Property = c.Prop
	c.mu.Lock()
	defer c.mu.Unlock()
	for _, f := range c.findings {
		if m, ok := findingMatchers[f.ID]; ok && m(d) {
			c.knownHits[f.ID]++
			return
		}
	}
	c.violations++
	if c.byKind == nil {
		c.byKind = map[string]int{}
		c.kindExample = map[string]string{}
	}
	kk := d.Kind + " " + d.Mode
	c.byKind[kk]++
	if c.byKind[kk] <= 3 {
		c.kindExample[kk] += fmt.Sprintf("\n      %.160q expected=%.80s got=%.100s", d.Script, d.Expected, d.Got)
	}
	if c.reported >= 25 {
		return
	}
	c.reported++
	b, _ := json.MarshalIndent(d, "", " ")
	h := sha1.Sum(b)
	dir := filepath.Join(verifRoot, "replays", c.Prop)
	_ = os.MkdirAll(dir, 0o755)
	path := filepath.Join(dir, hex.EncodeToString(h[:6])+".json")
	_ = os.WriteFile(path, b, 0o644)
	fmt.Printf("\nVIOLATION property=%s replay=%s\n", c.Prop, path) // (the engine itself prints to stdout, sometimes without a newline)
	fmt.Printf("  %s [%s] script=%.200q expected=%.120s got=%.120s\n", d.Kind, d.Mode, d.Script, d.Expected, d.Got)
}

func (c *Check) finish() int {
	c.mu.Lock()
	defer c.mu.Unlock()
	ids := []string{}
	for id := range c.knownHits {
		ids = append(ids, id)
	}
	sort.Strings(ids)
	for _, id := range ids {
		for _, f := range c.findings {
			if f.ID == id {
				fmt.Printf("\nKNOWN-FINDING: property=%s %s (%d cases; %s)\n", f.Property, f.ID, c.knownHits[id], f.What)
			}
		}
	}
	for _, t := range sampledTiers[c.Prop] {
		if t == c.Tier {
			c.exhaustive = false
		}
	}
	cov := map[string]interface{}{
		"states":                        c.states,
		"transitions":                   c.transitions,
		"traces_validated_against_impl": c.traces + c.behaviours,
		"traces_code_to_spec":           c.traces,
		"behaviours_spec_to_code":       c.behaviours,
		"evaluations":                   c.evaluations,
		"distinct_nontrivial":           len(c.distinct),
		"skip_rows":                     c.skipRows,
		"rule":                          c.rule,
		"samples":                       c.samples,
		"exhaustive":                    c.exhaustive && c.inconclusive == "",
		"known_findings_hit":            c.knownHits,
		"tlc_cmds":                      c.tlcCmds,
	}
	for k, v := range c.extra {
		cov[k] = v
	}
	if len(c.samples) == 0 {
		cov["samples"] = []interface{}{"none: the run ended before any case was explored"}
	}
	ev := map[string]interface{}{
		"property_id": c.Prop,
		"tier":        c.Tier,
		"seed":        c.Seed,
		"level":       c.Level,
		"coverage":    cov,
		"assumptions": c.assumptions,
		"wall_s":      time.Since(c.start).Seconds(),
		"violations":  c.violations,
	}
	if c.inconclusive != "" {
		ev["inconclusive"] = c.inconclusive
	}
	b, _ := json.MarshalIndent(ev, "", " ")
	_ = os.MkdirAll(filepath.Join(verifRoot, "evidence"), 0o755)
	if strings.HasPrefix(c.Prop, "C") {
		_ = os.WriteFile(filepath.Join(verifRoot, "evidence", c.Prop+".json"), b, 0o644)
	}
	fmt.Printf("\n%s tier=%s seed=%d: states=%d transitions=%d evaluations=%d distinct=%d behaviours=%d traces=%d violations=%d known=%v wall=%.1fs\n",
		c.Prop, c.Tier, c.Seed, c.states, c.transitions, c.evaluations, len(c.distinct), c.behaviours, c.traces, c.violations, c.knownHits, time.Since(c.start).Seconds())
	for k, n := range c.byKind {
		fmt.Printf("  violations of kind %q: %d e.g.%s\n", k, n, c.kindExample[k])
	}
	if c.violations > 0 {
		return 1
	}
	if c.inconclusive != "" {
		fmt.Printf("\nINCONCLUSIVE property=%s %s\n", c.Prop, c.inconclusive)
		return 2
	}
	return 0
}

func describeAny(v interface{}) string { return fmt.Sprint(v) }
