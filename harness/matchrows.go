package main

import (
	"encoding/json"
	"fmt"
	"sort"
	"sync"
)

// MC_Match: subjects with white space and line breaks against anchored patterns.  Two definitions of the
// regexp test are compatible with the statement ("lines": split, strip, any line; "plain": the text as it is);
// every row carries the verdict under each.  A result which is neither is a violation; so is an implementation
// which agrees with one definition on some subjects and with the other elsewhere - it follows none.
func runMatchRows(c *Check) { runMatchRowsAs(c, false) }

// asCall: the same subjects and patterns through the built-in match(subject, pattern) instead of the operators
func runMatchRowsAs(c *Check, asCall bool) {
	var mu sync.Mutex
	followed := map[string][]string{} // definition -> scripts on which only that one agrees
	cfg := "SPECIFICATION Spec\nINVARIANT Compatible\nINVARIANT Export\nCHECK_DEADLOCK FALSE\n"
	runRows(c, "MC_Match", cfg, func(row *Row) {
		var extra struct {
			Lines json.RawMessage `json:"lines"`
			Plain json.RawMessage `json:"plain"`
		}
		if json.Unmarshal(row.Raw, &extra) != nil {
			c.fail("MC_Match row does not parse")
			return
		}
		lines, plain := mustVal(extra.Lines), mustVal(extra.Plain)
		src, vars, obj := buildExprRow(row)
		if asCall {
			// ["bin", op, ["lit", subject], ["lit", ["R", pattern, flags]]]
			e := asList(row.E)
			if asString(e[1]) != "~=" || row.Prov != "ll" {
				return
			}
			subj := mustVal(asList(e[2])[1])
			re := asList(asList(e[3])[1])
			sl, _ := subj.Literal()
			src, vars, obj = "return match("+sl+", "+quoteString([]rune(cpsToString(re[1])))+");", nil, map[string]interface{}{}
		}
		c.count("match|"+row.Prov+"|"+src, true)
		for _, opt := range []bool{true, false} {
			mode := map[bool]string{true: "opt", false: "noopt"}[opt]
			m, err := newMachine(src, vars, nil, opt, nil)
			if err != nil {
				c.disagree(&Disagreement{Kind: "prepare-failed", Script: src, Mode: mode, Expected: "accepted", Got: err.Error(), Row: row.Raw})
				return
			}
			o := m.exec(obj)
			kl, _, _ := compareOut(lines, o)
			kp, _, _ := compareOut(plain, o)
			switch {
			case kl != "" && kp != "":
				c.disagree(&Disagreement{Kind: "value", Script: src, Mode: mode, Expected: lines.String() + " (lines stripped and tested one by one) or " + plain.String() + " (the text as it is)", Got: o.describe(), Row: row.Raw})
			case kl == "" && kp != "":
				mu.Lock()
				followed["lines"] = append(followed["lines"], src)
				mu.Unlock()
			case kl != "" && kp == "":
				mu.Lock()
				followed["plain"] = append(followed["plain"], src)
				mu.Unlock()
			}
		}
	})
	c.extra["match_rows_lines_only"] = len(followed["lines"])
	c.extra["match_rows_plain_only"] = len(followed["plain"])
	if len(followed["lines"]) > 0 && len(followed["plain"]) > 0 {
		sort.Strings(followed["lines"])
		sort.Strings(followed["plain"])
		minority, majority := "plain", "lines"
		if len(followed["lines"]) < len(followed["plain"]) {
			minority, majority = "lines", "plain"
		}
		c.disagree(&Disagreement{Kind: "two-definitions", Script: followed[minority][0],
			Expected: fmt.Sprintf("one definition of the regexp test for every subject (%d informative rows agree only with %q, e.g. %s)", len(followed[majority]), majority, followed[majority][0]),
			Got:      fmt.Sprintf("%d rows agree only with %q", len(followed[minority]), minority)})
	}
}
