package main

import (
	"encoding/json"
	"fmt"
	"sort"
	"sync"
)

// MC_Match: subjects with white space and line breaks against anchored patterns.  Two definitions of the
// regexp test are compatible with the statement ("lines": split, strip, any line; "plain": the text as it is);
// every row carries the verdict under each.  A result which is neither is a violation; so is an implementation
// which agrees with one definition on some subjects and with the other elsewhere - it follows none.
func runMatchRows(c *Check) { runMatchRowsAs(c, false) }

// asCall: the same subjects and patterns through the built-in match(subject, pattern) instead of the operators
func runMatchRowsAs(c *Check, asCall bool) {
	var mu sync.Mutex
	followed := map[string][]string{} // definition -> scripts on which only that one agrees
	cfg := "SPECIFICATION Spec\nINVARIANT Compatible\nINVARIANT Export\nCHECK_DEADLOCK FALSE\n"
	runRows(c, "MC_Match", cfg, func(row *Row) {
		var extra struct {
			Lines json.RawMessage `json:"lines"`
			Plain json.RawMessage `json:"plain"`
		}
		if json.Unmarshal(row.Raw, &extra) != nil {
			c.fail("MC_Match row does not parse")
			return
		}
		lines, plain := mustVal(extra.Lines), mustVal(extra.Plain)
		src, vars, obj := buildExprRow(row)
		if asCall {
			// ["bin", op, ["lit", subject], ["lit", ["R", pattern, flags]]]
			e := asList(row.E)
			if asString(e[1]) != "~=" || row.Prov != "ll" {
				return
			}
			subj := mustVal(asList(e[2])[1])
			re := asList(asList(e[3])[1])
			sl, _ := subj.Literal()
			src, vars, obj = "return match("+sl+", "+quoteString([]rune(cpsToString(re[1])))+");", nil, map[string]interface{}{}
		}
		c.count("match|"+row.Prov+"|"+src, true)
		for _, opt := range []bool{true, false} {
			mode := map[bool]string{true: "opt", false: "noopt"}[opt]
			m, err := newMachine(src, vars, nil, opt, nil)
			if err != nil {
				c.disagree(&Disagreement{Kind: "prepare-failed", Script: src, Mode: mode, Expected: "accepted", Got: err.Error(), Row: row.Raw})
				return
			}
			o := m.exec(obj)
			kl, _, _ := compareOut(lines, o)
			kp, _, _ := compareOut(plain, o)
			switch {
			case kl != "" && kp != "":
				c.disagree(&Disagreement{Kind: "value", Script: src, Mode: mode, Expected: lines.String() + " (lines stripped and tested one by one) or " + plain.String() + " (the text as it is)", Got: o.describe(), Row: row.Raw})
			case kl == "" && kp != "":
				mu.Lock()
				followed["lines"] = append(followed["lines"], src)
				mu.Unlock()
			case kl != "" && kp == "":
				mu.Lock()
				followed["plain"] = append(followed["plain"], src)
				mu.Unlock()
			}
		}
	})
	c.extra["match_rows_lines_only"] = len(followed["lines"])
	c.extra["match_rows_plain_only"] = len(followed["plain"])
	if len(followed["lines"]) > 0 && len(followed["plain"]) > 0 {
		sort.Strings(followed["lines"])
		sort.Strings(followed["plain"])
		minority, majority := "plain", "lines"
		if len(followed["lines"]) < len(followed["plain"]) {
			minority, majority = "lines", "plain"
		}
		c.disagree(&Disagreement{Kind: "two-definitions", Script: followed[minority][0],
			Expected: fmt.Sprintf("one definition of the regexp test for every subject (%d informative rows agree only with %q, e.g. %s)", len(followed[majority]), majority, followed[majority][0]),
			Got:      fmt.Sprintf("%d rows agree only with %q", len(followed[minority]), minority)})
	}
}

// reCaseTracker: rows of the family "recase" (a regexp case and a value which is not a string) carry the runs
// under two definitions; the implementation must follow one of them everywhere and may not abort the run
type reCaseTracker struct {
	mu       sync.Mutex
	followed map[string][]string
}

func (t *reCaseTracker) replay(c *Check, row *Row) {
	var extra struct {
		RunsNone []RunStep `json:"runsnone"`
	}
	if json.Unmarshal(row.Raw, &extra) != nil || len(extra.RunsNone) != len(row.Runs) {
		c.fail("recase row does not parse")
		return
	}
	src := rowSource(row)
	fns := parseFns(row.Fns)
	c.count("recase|"+src, true)
	for _, opt := range []bool{true, false} {
		mode := map[bool]string{true: "opt", false: "noopt"}[opt]
		m, err := newMachine(src, nil, fns, opt, nil)
		if err != nil {
			c.disagree(&Disagreement{Kind: "prepare-failed", Script: src, Mode: mode, Expected: "accepted", Got: err.Error(), Row: row.Raw})
			return
		}
		for i := range row.Runs {
			obj, _ := objFromPairs(row.Runs[i].Obj)
			o := m.exec(obj)
			agrees := func(e *Expect) bool {
				if k, _, _ := compareOut(mustVal(e.Out), o); k != "" {
					return false
				}
				return describeCalls(expectedCalls(e.Calls)) == describeCalls(o.Calls)
			}
			a, b := agrees(row.Runs[i].Exp), agrees(extra.RunsNone[i].Exp)
			where := fmt.Sprintf("object %s", string(row.Runs[i].Obj))
			switch {
			case !a && !b:
				c.disagree(&Disagreement{Kind: "value", Script: src, Mode: mode, Expected: mustVal(row.Runs[i].Exp.Out).String() + " with calls " + describeCalls(expectedCalls(row.Runs[i].Exp.Calls)) + " (a regexp case tests the printed form of the value) or " + mustVal(extra.RunsNone[i].Exp.Out).String() + " with calls " + describeCalls(expectedCalls(extra.RunsNone[i].Exp.Calls)) + " (no regexp case matches a value which is not a string)", Got: o.describe() + " with calls " + describeCalls(o.Calls), Row: row.Raw, Detail: map[string]interface{}{"where": where}})
			case a && !b:
				t.note("print", src+" on "+where)
			case b && !a:
				t.note("none", src+" on "+where)
			}
		}
	}
}

func (t *reCaseTracker) note(def, what string) {
	t.mu.Lock()
	defer t.mu.Unlock()
	if t.followed == nil {
		t.followed = map[string][]string{}
	}
	t.followed[def] = append(t.followed[def], what)
}

func (t *reCaseTracker) finish(c *Check) {
	c.extra["recase_rows_print_only"] = len(t.followed["print"])
	c.extra["recase_rows_none_only"] = len(t.followed["none"])
	if len(t.followed["print"]) > 0 && len(t.followed["none"]) > 0 {
		c.disagree(&Disagreement{Kind: "two-definitions", Script: t.followed["none"][0],
			Expected: fmt.Sprintf("one definition of a regexp case on a value which is not a string (%d informative runs agree only with \"the printed form is tested\", e.g. %s)", len(t.followed["print"]), t.followed["print"][0]),
			Got:      fmt.Sprintf("%d runs agree only with \"no regexp case matches\"", len(t.followed["none"]))})
	}
}
