package main

// Binding EFCompiler to the real compiler: for every program MC_Compile
// enumerates, the bytes, constant pool and function bodies the model emits
// must be what the real compiler emits for the rendered text (NoOptimize).
// A difference is DRIFT of the model (reported, never a violation): different
// but correct code is legitimate, and the verdicts of C18 are taken on the
// real bytecode by MC_Verify.

import (
	"encoding/json"
	"fmt"
	"math/big"
	"strconv"
	"strings"
)

type modelProg struct {
	Fam    string              `json:"fam"`
	Prog   json.RawMessage     `json:"prog"`
	OK     bool                `json:"ok"`
	Code   []int               `json:"code"`
	Consts []json.RawMessage   `json:"consts"`
	Funcs  [][]json.RawMessage `json:"funcs"`
	WF     bool                `json:"wf"`
	OCode  []int               `json:"ocode"`
	OFuncs [][]json.RawMessage `json:"ofuncs"`
	OSafe  bool                `json:"osafe"`
	OWF    bool                `json:"owf"`
}

func modelConstKey(raw json.RawMessage) string {
	p := asList(raw)
	switch asString(p[0]) {
	case "S":
		return "STRING:" + asString(p[1])
	case "SV":
		return "STRING:" + cpsToString(p[1])
	case "I":
		var n int64
		_ = json.Unmarshal(p[1], &n)
		return "INTEGER:" + strconv.FormatInt(n, 10)
	case "F":
		var n, d int64
		_ = json.Unmarshal(p[1], &n)
		_ = json.Unmarshal(p[2], &d)
		f, _ := big.NewRat(n, d).Float64()
		return "FLOAT:" + strconv.FormatFloat(f, 'f', -1, 64)
	case "R":
		pat := cpsToString(p[1])
		if fl := asString(p[2]); fl != "" {
			pat = "(?" + fl + ")" + pat
		}
		return "REGEXP:" + pat
	}
	return "?"
}

// remap the constant operands of a model body through the de-duplication the real pool performs
func remapBody(code []int, remap []int) []int {
	out := append([]int{}, code...)
	for i := 0; i < len(out); {
		op := out[i]
		if opLen(op) == 3 && i+2 < len(out) {
			if op == 0 || op == 4 || op == 22 || op == 23 {
				k := out[i+1]*256 + out[i+2]
				if k < len(remap) {
					out[i+1], out[i+2] = remap[k]/256, remap[k]%256
				}
			}
		}
		i += opLen(op)
	}
	return out
}

// compareCompile returns "" when model and implementation agree, else a description of the drift
func compareCompile(mp *modelProg, src string) string {
	d, err := dumpPrepared(src, false)
	if err != nil {
		return "the real compiler rejects the text: " + err.Error()
	}
	// the model's pool, de-duplicated the way the real one is (type + printed form)
	var keys []string
	index := map[string]int{}
	remap := make([]int, len(mp.Consts))
	for i, c := range mp.Consts {
		k := modelConstKey(c)
		if j, ok := index[k]; ok {
			remap[i] = j
			continue
		}
		index[k] = len(keys)
		remap[i] = len(keys)
		keys = append(keys, k)
	}
	e := evalfilterPrepared(src)
	if e == nil {
		return "cannot re-prepare"
	}
	var realKeys []string
	for _, c := range e.VerifMachine().VerifConstants() {
		realKeys = append(realKeys, string(c.Type())+":"+c.Inspect())
	}
	if strings.Join(keys, "\x00") != strings.Join(realKeys, "\x00") {
		return fmt.Sprintf("constant pools differ: model %q, implementation %q", keys, realKeys)
	}
	if why := compareBodies("unoptimised", mp.Code, mp.Funcs, remap, d); why != "" {
		return why
	}
	// the optimizer model against the real optimizer
	od, err := dumpPrepared(src, true)
	if err != nil {
		return "the optimised preparation fails: " + err.Error()
	}
	if why := compareBodies("optimised", mp.OCode, mp.OFuncs, remap, od); why != "" {
		return why
	}
	return ""
}

func compareBodies(what string, main []int, funcs [][]json.RawMessage, remap []int, d *progDump) string {
	if got, want := fmt.Sprint(d.Bodies[0].Code), fmt.Sprint(remapBody(main, remap)); got != want {
		return fmt.Sprintf("%s main body differs: model %s, implementation %s", what, want, got)
	}
	if len(funcs) != len(d.Bodies)-1 {
		return fmt.Sprintf("%s: %d functions in the model, %d in the implementation", what, len(funcs), len(d.Bodies)-1)
	}
	for _, f := range funcs {
		name := asString(f[0])
		var code []int
		_ = json.Unmarshal(f[2], &code)
		found := false
		for _, b := range d.Bodies[1:] {
			if b.Name == name {
				found = true
				if got, want := fmt.Sprint(b.Code), fmt.Sprint(remapBody(code, remap)); got != want {
					return fmt.Sprintf("%s body of %s differs: model %s, implementation %s", what, name, want, got)
				}
			}
		}
		if !found {
			return what + ": function " + name + " missing in the implementation"
		}
	}
	return ""
}
