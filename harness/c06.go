package main

func init() {
	checks["C06"] = checkC06
}

// C06: functions and scopes.
func checkC06(c *Check) {
	c.rule = "MC_Scope: 23 function templates (parameter assigned, local + global write, loop variables, loop variable named like the parameter / like a local, recursion reading its parameter after the recursive call, nested calls with the same parameter name, return from two nested loops, return from a switch in a while, no return, wrong argument count, unknown function, user function named like a built-in, recursion out of a loop, assignment to a non-local name, function defined twice, a function defined inside a function at the end and in the middle of the outer body, a second function reading the names the first one bound, a loop after the call assigning them, too many arguments, no arguments, recursion whose every level assigns its own local and parameter from inside a loop) x parameter/local/loop names drawn from {x, y, p} where x and y are globals of the caller x 6 call places (top level, inside foreach x, inside foreach i,y, inside while, inside if, inside another function with parameter x) (thorough: names from {x, y, p, g} where g is a global written by callees, and every call place inside every call place) x definition before/after use; each run twice; result, t() calls, all names read back and every variable compared; open scopes must be 0 after every run; non-trivial = expectation is a value or ERR"
	c.assumptions = []string{"assignment writes the innermost scope that already binds the name, else the globals (EFSemantics)", "a callee assigning a name bound by an enclosing scope of its caller is not generated"}
	tc := &traceCollector{every: 3, max: 3000000}
	runRows(c, "MC_Scope", stdCfg(c.Tier, "Specified", "Errors"), func(row *Row) {
		replayProgRow(c, row, progOpts{collector: tc})
	})
	// code -> spec: calls open a frame with a stack of its own and returns close it (Trace_VM: Enter / Leave)
	tc.validate(c)
}
