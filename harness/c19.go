package main

// C19: determinism across preparations, runs and processes.

import (
	"bufio"
	"crypto/sha1"
	"encoding/hex"
	"encoding/json"
	"fmt"
	"io"
	"os"
	"os/exec"
	"runtime"
	"strings"
	"sync"
)

func init() {
	checks["C19"] = checkC19
}

// observe everything observable about a script in this process: compiled programs (both
// modes, two Prepare calls), results and host calls of three runs, the Dump output
func observeScript(src string, withDump bool) string {
	var sb strings.Builder
	for _, opt := range []bool{true, false} {
		d1, err := dumpPrepared(src, opt)
		if err != nil {
			fmt.Fprintf(&sb, "[prepare error]")
			continue
		}
		b, _ := json.Marshal(d1)
		sb.Write(b)
		m, err := newMachine(src, nil, []FnSpec{{Name: "t", Kind: "log"}}, opt, nil)
		if err != nil {
			continue
		}
		for i := 0; i < 3; i++ {
			o := m.exec(nil)
			fmt.Fprintf(&sb, "|run%d:%s:%s", i, o.class(), describeCalls(o.Calls))
			if o.Err != nil {
				// the text of an error is output like any other: the same every time
				fmt.Fprintf(&sb, ":%s", o.Err.Error())
			}
		}
		// Prepare again on the same evaluator: the program must be the same
		if err := m.E.Prepare(); err == nil {
			mc := m.E.VerifMachine()
			fmt.Fprintf(&sb, "|again:%v:%v", bytesToInts(mc.VerifBytecode()), len(mc.VerifConstants()))
		}
		if withDump {
			sb.WriteString("|dump:" + captureStdout(func() { _ = m.E.Dump() }))
		}
	}
	return sb.String()
}

var stdoutMu sync.Mutex

func captureStdout(f func()) string {
	stdoutMu.Lock()
	defer stdoutMu.Unlock()
	old := os.Stdout
	r, w, err := os.Pipe()
	if err != nil {
		return ""
	}
	os.Stdout = w
	done := make(chan string)
	go func() {
		b, _ := io.ReadAll(r)
		done <- string(b)
	}()
	func() {
		defer func() { _ = recover() }()
		f()
	}()
	_ = w.Close()
	os.Stdout = old
	return <-done
}

func digest(s string) string {
	h := sha1.Sum([]byte(s))
	return hex.EncodeToString(h[:8])
}

// worker mode: read scripts (JSON lines) from the file, print one digest per script
func c19Worker(path string) int {
	f, err := os.Open(path)
	if err != nil {
		return 2
	}
	defer f.Close()
	sc := bufio.NewScanner(f)
	sc.Buffer(make([]byte, 1<<20), 1<<26)
	out := bufio.NewWriter(os.Stderr) // stdout is captured for Dump
	defer out.Flush()
	for sc.Scan() {
		var s string
		if json.Unmarshal(sc.Bytes(), &s) != nil {
			continue
		}
		fmt.Fprintf(out, "DIGEST %s\n", digest(observeScript(s, true)))
	}
	return 0
}

func detScripts(tier string) []string {
	var out []string
	// many constants, several functions: the constant pool and function table must come out the same
	for _, n := range []int{20, 120, 300} {
		var sb strings.Builder
		for i := 0; i < n; i++ {
			fmt.Fprintf(&sb, "v%d = \"s%d\"; w%d = %d.5; ", i%7, i, i%5, i)
		}
		sb.WriteString("function fa(a) { return a + 1; } function fb(b) { return fa(b) * 2; } function fc() { return {\"z\": 1, \"a\": 2}; } function fd(x, y) { return [x, y]; } ")
		sb.WriteString("return [fb(2), fc(), fd(v1, w2)];")
		out = append(out, sb.String())
	}
	// several functions each holding many expressions the optimizer rewrites (constant arithmetic, decided conditions):
	// whatever the optimizer does to one function may not depend on the order in which it visits the others
	for _, n := range []int{15, 120, 300} {
		var sb strings.Builder
		call := ""
		for f := 0; f < 6; f++ {
			fmt.Fprintf(&sb, "function g%d(x) { ", f)
			for i := 0; i < n; i++ {
				fmt.Fprintf(&sb, "x = x + %d * %d; if ( %d == %d ) { x = x - 1; } ", i%7+1, f+2, i%3, f%3)
			}
			sb.WriteString("return x; } ")
			call += fmt.Sprintf("g%d(1), ", f)
		}
		fmt.Fprintf(&sb, "y = 2 * 3 + 4; return [%s y];", call)
		out = append(out, sb.String())
	}
	out = append(out,
		`h = {"b": 1, "a": 2, "c": {"y": 1, "x": 2}}; r = ""; foreach k, v in h { r = r + k; } return [r, keys(h), string(h)];`,
		`function f() { return {1: "i", "1": "s", 1.0: "f"}; } a = f(); b = f(); return [string(a) == string(b), keys(a), keys(b)];`,
		`x = {"k": 1, "k": 2, "k": 3}; return [x["k"], len(x), string(x)];`,
		`return sort(["b", "B", "a", "A", "b"], true);`,
		`return [sort([1, "1", 1.0]), reverse(["x", "X"], true)];`,
		`s = {}; foreach i in 1..5 { s = {"n": i, "prev": s}; } return string(s);`,
		// keys which are not single tokens (negated numbers) with values which print alike; numbers among strings which
		// print between them: one compiled program, one order
		`return {-1: "error", -2: "error", 0: "ok"};`, `h = {-100000: "low", -200000: "low", -300000: "low"}; return [string(h), keys(h)];`, `return {-1.5: 1, -2.5: 1, -(3): 1, -(4): 1};`,
		`h = {"5": 1, 9: 2, 10: 3}; r = ""; foreach k, v in h { r = r + string(k) + ","; } return [keys(h), string(h), r, len(h)];`,
		`h = {"10+": 1, 2: 2, 10: 3, 1: 4, "1a": 5}; r = ""; foreach k, v in h { r = r + string(k) + ","; } return [keys(h), string(h), r];`,
		`function f(k) { return {k: 1, "7": 2, 8: 3, 70: 4}; } return [string(f(9)), string(f("9")), keys(f(100))];`,
		// run-time errors which mention the values involved: the text is the same every time
		`return {[1, 2]: 1};`, `h = {"a": 1}; return h[[1, [2]]];`, `h = {"a": 1}; return h[{"k": [1]}];`, `return {{"a": 1}: 2};`, `return {true: 1};`, `return {null: 1};`,
		`return [1, 2] + {"a": 1};`, `return [1] < [2];`, `return {"a": [1]} ~= /a/;`, `return -[1, 2];`, `return [1, 2][[0]];`, `return "abc"[{"a": 1}];`, `foreach x in {"a": [1]} { return x + 1; }`,
		`function f(a) { return a; } return f([1], {"b": 2});`, `return nosuch([1, 2], {"a": 1});`, `return len([1], [2]);`, `return sort({"a": 1});`, `return join({"a": 1}, [1]);`,
		`x = [1, {"a": [2]}]; x++; return x;`, `return sprintf("%d %s", [1], {"a": 1});`, `return int([1, 2]) + float({"a": 1});`, `switch ( [1] ) { case {"a": 1} { return 1; } } return [2] in 3;`,
	)
	return out
}

// The same script, object and variables give the same result whatever the evaluator did before and wherever the
// object lives: a used evaluator against a fresh one, on containers changed in place, re-used, and freshly
// allocated between collections (so that addresses are handed out again).
type detRecord struct {
	Name  string
	Count int
	Tags  []string
}

func historyIndependence(c *Check) {
	const src = `return string(Name) + "|" + string(Count) + "|" + string(len(Tags));`
	fresh := func(obj interface{}, opt bool) string {
		m, err := newMachine(src, nil, nil, opt, nil)
		if err != nil {
			return "prepare: " + err.Error()
		}
		return m.exec(obj).class()
	}
	for _, opt := range []bool{true, false} {
		used, err := newMachine(src, nil, nil, opt, nil)
		if err != nil {
			c.fail("C19 history script rejected: " + err.Error())
			return
		}
		compare := func(what string, obj interface{}) {
			got := used.exec(obj).class()
			want := fresh(obj, opt)
			c.count(fmt.Sprintf("history|%v|%s", opt, what), true)
			if got != want {
				c.disagree(&Disagreement{Kind: "depends-on-history", Script: src, Mode: map[bool]string{true: "opt", false: "noopt"}[opt],
					Expected: want + " (what a freshly prepared evaluator gives for this object)", Got: got, Detail: map[string]interface{}{"where": what}})
			}
		}
		// one map, changed in place between runs
		doc := map[string]interface{}{"Name": "a", "Count": 1, "Tags": []interface{}{"x"}}
		for i := 0; i < 4; i++ {
			doc["Name"] = fmt.Sprintf("n%d", i)
			doc["Count"] = i * 7
			doc["Tags"] = append(doc["Tags"].([]interface{}), i)
			compare(fmt.Sprintf("map changed in place, step %d", i), doc)
		}
		// one struct behind a pointer, overwritten between runs (decoding a stream into one record)
		rec := &detRecord{}
		for i := 0; i < 4; i++ {
			*rec = detRecord{Name: fmt.Sprintf("r%d", i), Count: 100 + i, Tags: make([]string, i)}
			compare(fmt.Sprintf("record overwritten behind a pointer, step %d", i), rec)
		}
		// runs which leave a loop early - by a return, by an error - followed by runs in which a function reads a FIELD
		// named like the loop variable: what the earlier run bound is gone
		scenarios := []struct {
			src  string
			objs []map[string]interface{}
		}{
			{`function blocked() { return user in Banned; } if ( blocked() ) { return "blocked"; } foreach user in Admins { if ( user == "root" ) { return "root is an admin here"; } } return "ok";`,
				[]map[string]interface{}{{"user": "alice", "Banned": []interface{}{"root", "mallory"}, "Admins": []interface{}{"carol", "root"}}}},
			{`function peek() { return item; } foreach item in Items { if ( item == Stop ) { x = 1 / Zero; } } return peek();`,
				[]map[string]interface{}{{"item": "field", "Items": []interface{}{1, 2, 3}, "Stop": 2, "Zero": 0}, {"item": "field", "Items": []interface{}{1, 2, 3}, "Stop": 99, "Zero": 0}}},
			{`function inner() { foreach k, v in Pairs { if ( v == Want ) { return k; } } return "none"; } function outer() { return [inner(), k, v]; } return outer();`,
				[]map[string]interface{}{{"k": "K", "v": "V", "Pairs": map[string]interface{}{"a": 1, "b": 2}, "Want": 1}, {"k": "K", "v": "V", "Pairs": map[string]interface{}{"a": 1, "b": 2}, "Want": 7}}},
		}
		for si, sc := range scenarios {
			usedS, err := newMachine(sc.src, nil, nil, opt, nil)
			if err != nil {
				c.fail("C19 scenario script rejected: " + err.Error())
				continue
			}
			for round := 0; round < 4; round++ {
				for oi, obj := range sc.objs {
					got := usedS.exec(obj).class()
					want := "prepare failed"
					if f, err := newMachine(sc.src, nil, nil, opt, nil); err == nil {
						want = f.exec(obj).class()
					}
					c.count(fmt.Sprintf("history-scenario|%v|%d|%d|%d", opt, si, round, oi), true)
					if got != want {
						c.disagree(&Disagreement{Kind: "depends-on-history", Script: sc.src, Mode: map[bool]string{true: "opt", false: "noopt"}[opt],
							Expected: want + " (what a freshly prepared evaluator gives for this object)", Got: got, Detail: map[string]interface{}{"where": fmt.Sprintf("round %d, object %d of the scenario", round+1, oi+1)}})
					}
				}
			}
		}
		// fresh objects, with collections in between: an address may be handed out again
		for i := 0; i < 300; i++ {
			obj := map[string]interface{}{"Name": fmt.Sprintf("g%d", i), "Count": i, "Tags": []interface{}{}}
			compare("a fresh map after a collection", obj)
			ptr := &detRecord{Name: fmt.Sprintf("p%d", i), Count: -i}
			compare("a fresh record after a collection", ptr)
			obj, ptr = nil, nil
			if i%3 == 0 {
				runtime.GC()
			}
		}
	}
}

func checkC19(c *Check) {
	c.rule = "MC_Det: hash literals of 2-5 keys drawn from a pool of 8 keys in which printed forms coincide (1 / 1.0 / \"1\", 1.5 / \"1.5\") incl. repeated keys, observed through string(), keys(), len, foreach over keys and values (twice), index by four keys; nested hashes inside hashes and arrays; plus programs with 20-300 constants and four functions, programs of six functions each holding 15-300 foldable expressions and decided conditions (what the optimizer does to one function may not depend on the order it visits them in), repeated keys, sort ties; each script is prepared in both modes and run three times on one evaluator, prepared again on the same evaluator, dumped; where EFSemantics defines the outcome it is prescribed, everywhere the whole observation (compiled program bytes and constants, results, host calls, Dump output) must be identical across 6 preparations in the parent process and across 4 (thorough: 12) separate worker processes (each with its own map-iteration seed); 22 scripts failing with errors that mention containers: the error text is part of the observation; a used evaluator against a fresh one on a map changed in place, a record overwritten behind one pointer, and 600 fresh objects with collections in between (addresses handed out again): same inputs, same result; distinct = distinct script"
	c.assumptions = []string{"now()/time()/getenv() are not used", "order among hash keys with equal printed form is unspecified but must be fixed"}
	var mu sync.Mutex
	seen := map[string]bool{}
	var scripts []string
	runRows(c, "MC_Det", stdCfg(c.Tier, "Functional"), func(row *Row) {
		replayProgRow(c, row, progOpts{})
		src := rowSource(row)
		mu.Lock()
		if !seen[src] {
			seen[src] = true
			scripts = append(scripts, src)
		}
		mu.Unlock()
	})
	scripts = append(scripts, detScripts(c.Tier)...)
	historyIndependence(c)
	// in-process: repeated preparations agree
	ref := make([]string, len(scripts))
	var wg sync.WaitGroup
	sem := make(chan struct{}, 16)
	for i, s := range scripts {
		wg.Add(1)
		sem <- struct{}{}
		go func(i int, s string) {
			defer wg.Done()
			defer func() { <-sem }()
			first := observeScript(s, false)
			for k := 0; k < 5; k++ {
				if again := observeScript(s, false); again != first {
					c.disagree(&Disagreement{Kind: "nondeterministic-in-process", Script: s, Expected: truncate(first, 400), Got: truncate(again, 400)})
					break
				}
			}
			c.count("det|"+s, true)
		}(i, s)
	}
	wg.Wait()
	// across processes (Dump included): every worker must print the same digests
	f, err := os.CreateTemp("", "efdet-*.ndjson")
	if err != nil {
		c.fail(err.Error())
		return
	}
	defer os.Remove(f.Name())
	w := bufio.NewWriter(f)
	for _, s := range scripts {
		b, _ := json.Marshal(s)
		w.Write(b)
		w.WriteByte('\n')
	}
	w.Flush()
	f.Close()
	procs := 4
	if c.Tier == "thorough" {
		procs = 12
	}
	self, _ := os.Executable()
	results := make([][]string, procs)
	var pw sync.WaitGroup
	for p := 0; p < procs; p++ {
		pw.Add(1)
		go func(p int) {
			defer pw.Done()
			cmd := exec.Command(self, "c19worker", f.Name())
			cmd.Stdout = io.Discard
			errPipe, _ := cmd.StderrPipe()
			if err := cmd.Start(); err != nil {
				return
			}
			sc := bufio.NewScanner(errPipe)
			for sc.Scan() {
				if strings.HasPrefix(sc.Text(), "DIGEST ") {
					results[p] = append(results[p], strings.TrimPrefix(sc.Text(), "DIGEST "))
				}
			}
			_ = cmd.Wait()
		}(p)
	}
	pw.Wait()
	for p := 0; p < procs; p++ {
		if len(results[p]) != len(scripts) {
			c.fail(fmt.Sprintf("worker %d returned %d digests for %d scripts", p, len(results[p]), len(scripts)))
			return
		}
	}
	for i, s := range scripts {
		for p := 1; p < procs; p++ {
			if results[p][i] != results[0][i] {
				c.disagree(&Disagreement{Kind: "nondeterministic-across-processes", Script: s, Expected: "the same observation in every process (digest " + results[0][i] + ")", Got: "digest " + results[p][i] + " in another process"})
				break
			}
		}
	}
	_ = ref
	c.extra["processes"] = procs
	c.extra["scripts"] = len(scripts)
}
