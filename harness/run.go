package main

// Executing a specification row against the real evaluator and comparing the
// observable projection (result type + printed form or error-ness, host-call
// log, variables, open scopes) with what the specification prescribes.

import (
	"context"
	"encoding/json"
	"fmt"
	"sort"
	"strings"
	"sync"
	"sync/atomic"
	"time"

	"github.com/skx/evalfilter/v2/code"

	"github.com/skx/evalfilter/v2"
	"github.com/skx/evalfilter/v2/object"
	"github.com/skx/evalfilter/v2/vm"
)

type RunStep struct {
	Act    string          `json:"act"`    // "exec" (default) | "run": call Run and observe its verdict
	Obj    json.RawMessage `json:"obj"`    // [[field, value]...] (map object); absent = nil object
	NilObj bool            `json:"nilobj"` // pass an untyped nil as the object
	Pre    json.RawMessage `json:"pre"`    // the variables the evaluator holds before this run (C07: fresh-evaluator oracle)
	Exp    *Expect         `json:"exp"`
}

type Expect struct {
	Out   json.RawMessage `json:"out"`   // value | ERR | SKIP | DIVERGE
	Calls json.RawMessage `json:"calls"` // [[name,[args]]...] or absent
	Vars  json.RawMessage `json:"vars"`  // [[name,value]...] or absent
}

type Row struct {
	K    string          `json:"k"`
	Prov string          `json:"prov"`
	E    json.RawMessage `json:"e"`
	Prog json.RawMessage `json:"prog"`
	Toks json.RawMessage `json:"toks"`
	Sep  string          `json:"sep"`
	Vars json.RawMessage `json:"vars"`
	Fns  json.RawMessage `json:"fns"` // [[name, kind]...]
	Exp  json.RawMessage `json:"exp"` // single run: expected result only
	Runs []RunStep       `json:"runs"`
	// ErrVars: the variables a failed run leaves are prescribed too (checked, and later runs still constrained)
	ErrVars bool `json:"errvars"`
	// Repeat: every run has the same inputs; even where the outcome is unconstrained it must be the same each time
	Repeat bool            `json:"repeat"`
	Raw    json.RawMessage `json:"-"`
}

type Call struct {
	Name string
	Args []string // described
}

type Outcome struct {
	PrepErr error
	Err     error
	Out     object.Object
	Panic   interface{}
	Calls   []Call
	Scopes  int
	Steps   int
	Idle    string // non-empty: the machine was not left as it was found
}

func (o Outcome) describe() string {
	switch {
	case o.Panic != nil:
		return fmt.Sprintf("PANIC %v", o.Panic)
	case o.PrepErr != nil:
		return "PREPARE-ERROR " + o.PrepErr.Error()
	case o.Err != nil:
		return "ERROR " + o.Err.Error()
	}
	return describe(o.Out)
}

func (o Outcome) class() string {
	switch {
	case o.Panic != nil:
		return "PANIC"
	case o.PrepErr != nil:
		return "PREPARE-ERROR"
	case o.Err != nil:
		return "ERROR"
	}
	return describe(o.Out)
}

// Evaluator under test plus the host-call log.
type Machine struct {
	E     *evalfilter.Eval
	calls []Call
	ctx   *resetCtx
	steps *int64         // instructions dispatched in the current run (nil: not counted)
	fnGen map[string]int // how often a host function of that name has been registered: a call reaching an
	// earlier registration is recorded under "<name>@replaced"
}

// resetCtx is a context the harness can cancel and re-arm between runs, so that one
// prepared evaluator can see a deadline expire in one run and be live again in the next.
type resetCtx struct {
	mu   sync.Mutex
	done chan struct{}
	err  error
}

func newResetCtx() *resetCtx { return &resetCtx{done: make(chan struct{})} }

func (c *resetCtx) Deadline() (time.Time, bool) { return time.Time{}, false }
func (c *resetCtx) Done() <-chan struct{} {
	c.mu.Lock()
	defer c.mu.Unlock()
	return c.done
}
func (c *resetCtx) Err() error {
	c.mu.Lock()
	defer c.mu.Unlock()
	return c.err
}
func (c *resetCtx) Value(key interface{}) interface{} { return nil }
func (c *resetCtx) cancel() {
	c.mu.Lock()
	defer c.mu.Unlock()
	if c.err == nil {
		c.err = context.Canceled
		close(c.done)
	}
}
func (c *resetCtx) reset() {
	c.mu.Lock()
	defer c.mu.Unlock()
	if c.err != nil {
		c.err = nil
		c.done = make(chan struct{})
	}
}

// per-VM instruction counters fed by the step hook (only registered machines are counted)
type stepInfo struct {
	n      int64
	budget int64
	ctx    *resetCtx
}

var stepTable sync.Map // *vm.VM -> *stepInfo

func init() {
	vm.VerifStepHook = func(m *vm.VM, ip int, op code.Opcode, arg int) {
		if v, ok := stepTable.Load(m); ok {
			si := v.(*stepInfo)
			n := atomic.AddInt64(&si.n, 1)
			if si.budget > 0 && n == si.budget && si.ctx != nil {
				si.ctx.cancel()
			}
		}
	}
}

// countSteps registers the machine for instruction counting; when budget > 0 the
// machine's (resettable) context is cancelled once that many instructions ran in one run.
func (m *Machine) countSteps(budget int64) *stepInfo {
	si := &stepInfo{budget: budget, ctx: m.ctx}
	stepTable.Store(m.E.VerifMachine(), si)
	return si
}

func (m *Machine) release() {
	if m.E != nil && m.E.VerifMachine() != nil {
		stepTable.Delete(m.E.VerifMachine())
	}
}

type FnSpec struct {
	Name string
	Kind string // "log": returns void; "same": returns its first argument; "pack": returns an array made of the argument slice it was given; "val": returns fresh Ret
	Ret  Val
}

func newMachine(src string, vars [][2]interface{}, fns []FnSpec, optimize bool, ctx context.Context) (*Machine, error) {
	m := &Machine{E: evalfilter.New(src)}
	if ctx != nil {
		m.E.SetContext(ctx)
		if rc, ok := ctx.(*resetCtx); ok {
			m.ctx = rc
		}
	}
	for _, kv := range vars {
		m.E.SetVariable(kv[0].(string), kv[1].(object.Object))
	}
	for _, f := range fns {
		m.addFunction(f)
	}
	var err error
	func() {
		defer func() {
			if r := recover(); r != nil {
				err = fmt.Errorf("PANIC in Prepare: %v", r)
			}
		}()
		if optimize {
			err = m.E.Prepare()
		} else {
			err = m.E.Prepare([]byte{evalfilter.NoOptimize})
		}
	}()
	return m, err
}

// addFunction registers (or replaces) a host function of the given kind
func (m *Machine) addFunction(f FnSpec) {
	if m.fnGen == nil {
		m.fnGen = map[string]int{}
	}
	m.fnGen[f.Name]++
	gen := m.fnGen[f.Name]
	{
		m.E.AddFunction(f.Name, func(args []object.Object) object.Object {
			c := Call{Name: f.Name}
			if gen != m.fnGen[f.Name] {
				c.Name = f.Name + "@replaced" // this registration was replaced by a later AddFunction: it must not be called any more
			}
			for _, a := range args {
				c.Args = append(c.Args, describe(a))
			}
			m.calls = append(m.calls, c)
			switch f.Kind {
			case "same":
				if len(args) > 0 {
					return args[0]
				}
				return &object.Null{}
			case "count":
				// the number of calls of this function so far in the run, this one included
				n := 0
				for _, cl := range m.calls {
					if cl.Name == f.Name {
						n++
					}
				}
				return &object.Integer{Value: int64(n)}
			case "pack":
				// the arguments as an array - the very slice the engine handed over, as a host function
				// which wraps its arguments would return it
				return &object.Array{Elements: args}
			case "val":
				o, _ := f.Ret.Object()
				return o
			case "single":
				// the engine's own shared objects
				switch f.Ret.Tag {
				case "B":
					if f.Ret.B {
						return vm.True
					}
					return vm.False
				case "N":
					return vm.Null
				}
				o, _ := f.Ret.Object()
				return o
			}
			return &object.Void{}
		})
	}
}

// execAct performs one API action: "run" calls Run and reports its verdict as a boolean
func (m *Machine) execAct(act string, obj interface{}) (out Outcome) {
	if act != "run" {
		return m.exec(obj)
	}
	m.calls = nil
	defer func() {
		if r := recover(); r != nil {
			out.Panic = r
		}
		out.Calls = m.calls
		out.Scopes = m.E.VerifEnvironment().VerifScopeDepth()
	}()
	b, err := m.E.Run(obj)
	out.Err = err
	if err == nil {
		out.Out = &object.Boolean{Value: b}
	}
	return
}

// idle: what must hold of the machine between runs (EFVM: FramesRestoredWhenIdle,
// ScopesBalancedWhenIdle): the main program installed, no call in progress
func (m *Machine) idle(before string) string {
	mc := m.E.VerifMachine()
	if mc == nil {
		return ""
	}
	if now := bytecodeIdentity(mc.VerifBytecode()); now != before {
		return "program installed after the run is not the main program (" + now + " vs " + before + ")"
	}
	if n := mc.VerifCalls(); n != 0 {
		return fmt.Sprintf("%d function calls still marked in progress", n)
	}
	return ""
}

func bytecodeIdentity(b code.Instructions) string {
	if len(b) == 0 {
		return "empty"
	}
	return fmt.Sprintf("%p/%d", &b[0], len(b))
}

func (m *Machine) exec(obj interface{}) (out Outcome) {
	m.calls = nil
	before := ""
	if mc := m.E.VerifMachine(); mc != nil {
		before = bytecodeIdentity(mc.VerifBytecode())
	}
	defer func() {
		if r := recover(); r != nil {
			out.Panic = r
		}
		out.Calls = m.calls
		out.Scopes = m.E.VerifEnvironment().VerifScopeDepth()
		out.Idle = m.idle(before)
	}()
	o, err := m.E.Execute(obj)
	out.Out, out.Err = o, err
	if err == nil {
		if bad := malformedResult(o, 0); bad != "" {
			out.Panic = bad // not a value a host can use: treated like a crash by every comparison
		}
	}
	return
}

// malformedResult: a result the host cannot use without crashing - nil, a container holding a nil object, or a
// container which (directly or not) holds itself
func malformedResult(o object.Object, depth int) (bad string) {
	return malformed(o, depth, nil)
}

func malformed(o object.Object, depth int, path []object.Object) (bad string) {
	defer func() {
		if r := recover(); r != nil {
			bad = fmt.Sprintf("the result cannot be inspected: %v", r)
		}
	}()
	if o == nil {
		if depth == 0 {
			return "Execute returned (nil, nil)"
		}
		return "the result holds a nil object"
	}
	for _, anc := range path {
		if anc == o {
			return "the result holds itself (printing it never ends)"
		}
	}
	if depth > 64 {
		return ""
	}
	switch v := o.(type) {
	case *object.Array:
		for _, e := range v.Elements {
			if b := malformed(e, depth+1, append(path, o)); b != "" {
				return b
			}
		}
	case *object.Hash:
		for _, p := range v.Pairs {
			if b := malformed(p.Key, depth+1, append(path, o)); b != "" {
				return b
			}
			if b := malformed(p.Value, depth+1, append(path, o)); b != "" {
				return b
			}
		}
	}
	return ""
}

func parsePairs(raw json.RawMessage) [][2]json.RawMessage {
	if len(raw) == 0 || string(raw) == "null" {
		return nil
	}
	var out [][2]json.RawMessage
	for _, p := range asList(raw) {
		kv := asList(p)
		out = append(out, [2]json.RawMessage{kv[0], kv[1]})
	}
	return out
}

func objFromPairs(raw json.RawMessage) (interface{}, bool) {
	if len(raw) == 0 || string(raw) == "null" {
		return nil, true
	}
	m := map[string]interface{}{}
	for _, kv := range parsePairs(raw) {
		h, ok := mustVal(kv[1]).Host()
		if !ok {
			return nil, false
		}
		m[asString(kv[0])] = h
	}
	return m, true
}

// compare an outcome with an expected result; returns "" when it agrees
func compareOut(exp Val, o Outcome) (kind, want, got string) {
	if o.Panic != nil {
		return "panic", exp.String(), o.describe()
	}
	switch exp.Tag {
	case "ANYOF":
		for _, alt := range exp.Elems {
			if k, _, _ := compareOut(alt, o); k == "" {
				return "", "", ""
			}
		}
		return "value", exp.String(), o.describe()
	case "SKIP":
		return "", "", ""
	case "ERR":
		if o.Err == nil {
			return "error-expected", "ERROR", o.describe()
		}
		return "", "", ""
	case "DIVERGE":
		if o.Err == nil {
			return "diverge-expected", "ERROR (time-out)", o.describe()
		}
		return "", "", ""
	}
	if o.Err != nil {
		return "value", exp.String(), o.describe()
	}
	if exp.Tag == "V" {
		// nothing was returned: the machine reports null for "ran off the end"
		exp = Val{Tag: "N"}
	}
	if ok, _ := exp.matches(o.Out); !ok {
		return "value", exp.String(), o.describe()
	}
	return "", "", ""
}

func describeCalls(cs []Call) string {
	parts := []string{}
	for _, c := range cs {
		parts = append(parts, c.Name+"("+strings.Join(c.Args, ", ")+")")
	}
	return strings.Join(parts, "; ")
}

func expectedCalls(raw json.RawMessage) []Call {
	var out []Call
	for _, c := range asList(raw) {
		cn := asList(c)
		call := Call{Name: asString(cn[0])}
		for _, a := range asList(cn[1]) {
			call.Args = append(call.Args, mustVal(a).String())
		}
		out = append(out, call)
	}
	return out
}

func sortedKeys(m map[string]object.Object) []string {
	ks := []string{}
	for k := range m {
		ks = append(ks, k)
	}
	sort.Strings(ks)
	return ks
}

// variables the evaluator holds, described, without the engine's own OPTIMIZE flag
func describeGlobals(m *Machine) string {
	g := m.E.VerifEnvironment().VerifGlobals()
	parts := []string{}
	for _, k := range sortedKeys(g) {
		if k == "OPTIMIZE" {
			continue
		}
		parts = append(parts, k+"="+describe(g[k]))
	}
	return strings.Join(parts, " ")
}
