package main

func init() {
	checks["C05"] = checkC05
}

// C05: one notion of truth in every position and for every provenance.
func checkC05(c *Check) {
	c.rule = "MC_Truth: every value of the corpus (50 values of all types incl. empty/non-empty containers, zero, negatives) and 10 numbers next to zero and far from it (5e-10, -5e-10, 1e-9, 1e-6, 2e9 ...) x provenance {literal, SetVariable, object field, fresh host-function result, engine singleton returned by a host function} x position {if, while, ternary, !, !!, if(!x), (!x ? :), while(!x), !x || false, if(!!x), while(!!x), (!!x ? :), either side of && and ||, verdict of Run}; all ordered pairs of the reduced set under && and || with host-function provenance, plain and with both operands negated; results of built-ins in every position; plus the && / || / ! cells of MC_Expr (literal, variable and field provenance); non-trivial = expectation is a value; distinct = distinct (script, provenance, value)"
	c.assumptions = []string{"the oracle is EFValues!Truthy: true, positive numbers, non-empty strings/arrays/hashes/regexps are truthy"}
	runRows(c, "MC_Truth", stdCfg(c.Tier, "PositionsAgree"), func(row *Row) {
		replayProgRow(c, row, progOpts{})
	})
	runExprRows(c, func(ops []string) bool {
		for _, o := range ops {
			if o == "&&" || o == "||" || o == "!" {
				return true
			}
		}
		return false
	})
}
