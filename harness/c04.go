package main

// C04: host objects built by reflection from the specification's description.

import (
	"encoding/json"
	"fmt"
	"reflect"
	"time"
)

func init() {
	checks["C04"] = checkC04
}

type hostField struct {
	Name string
	Kind string
	Val  Val
}

func parseHostFields(raw json.RawMessage) []hostField {
	var out []hostField
	for _, f := range asList(raw) {
		p := asList(f)
		out = append(out, hostField{asString(p[0]), asString(p[1]), mustVal(p[2])})
	}
	return out
}

var ifaceType = reflect.TypeOf((*interface{})(nil)).Elem()

// hostValue builds the Go value of the given kind which the engine must convert to v
func hostValue(kind string, v Val) (reflect.Value, reflect.Type) {
	mk := func(x interface{}) (reflect.Value, reflect.Type) { return reflect.ValueOf(x), reflect.TypeOf(x) }
	ints := func() []int64 {
		out := []int64{}
		for _, e := range v.Elems {
			out = append(out, e.I)
		}
		return out
	}
	switch kind {
	case "int":
		return mk(int(v.I))
	case "int64":
		return mk(v.I)
	case "int8":
		return mk(int8(v.I))
	case "int16":
		return mk(int16(v.I))
	case "int32":
		return mk(int32(v.I))
	case "uint":
		return mk(uint(v.I))
	case "uint8":
		return mk(uint8(v.I))
	case "uint16":
		return mk(uint16(v.I))
	case "uint32":
		return mk(uint32(v.I))
	case "uint64":
		return mk(uint64(v.I))
	case "float64":
		return mk(v.float())
	case "float32":
		return mk(float32(v.float()))
	case "string":
		return mk(string(v.Cps))
	case "bool":
		return mk(v.B)
	case "time":
		return mk(time.Unix(v.I, 0))
	case "[]string":
		out := []string{}
		for _, e := range v.Elems {
			out = append(out, string(e.Cps))
		}
		return mk(out)
	case "nil[]string":
		return mk([]string(nil))
	case "[]int":
		out := []int{}
		for _, n := range ints() {
			out = append(out, int(n))
		}
		return mk(out)
	case "[]int64":
		return mk(ints())
	case "[]int32":
		out := []int32{}
		for _, n := range ints() {
			out = append(out, int32(n))
		}
		return mk(out)
	case "[]float64":
		out := []float64{}
		for _, e := range v.Elems {
			out = append(out, e.float())
		}
		return mk(out)
	case "[]float32":
		out := []float32{}
		for _, e := range v.Elems {
			out = append(out, float32(e.float()))
		}
		return mk(out)
	case "[]bool":
		out := []bool{}
		for _, e := range v.Elems {
			out = append(out, e.B)
		}
		return mk(out)
	case "[]time":
		out := []time.Time{}
		for _, e := range v.Elems {
			out = append(out, time.Unix(e.I, 0))
		}
		return mk(out)
	case "[]interface", "[]interface-nil":
		out := []interface{}{}
		for _, e := range v.Elems {
			h, _ := e.Host()
			if e.Tag == "I" {
				h = int(e.I) // JSON-shaped data decoded by hosts often holds ints
			}
			out = append(out, h)
		}
		return mk(out)
	case "map":
		h, _ := v.Host()
		return mk(h)
	case "chan":
		return mk(make(chan int))
	case "func":
		return mk(func() {})
	case "ptr":
		n := int(v.I)
		return mk(&n)
	case "nilptr":
		return mk((*int)(nil))
	case "struct":
		return mk(struct{ X int }{1})
	case "complex":
		return mk(complex(1, 2))
	case "array":
		return mk([1]int{1})
	case "[]ptr":
		return mk([]*int{})
	case "map[int]":
		return mk(map[int]interface{}{1: 1})
	case "map[string]int":
		return mk(map[string]int{"a": 1})
	case "iface-nil":
		return reflect.Zero(ifaceType), ifaceType
	}
	panic("unknown host kind " + kind)
}

type objBuilder struct {
	kind  string
	ptr   reflect.Value          // ptr/struct: pointer to the struct
	m     map[string]interface{} // map
	stype reflect.Type
}

func buildObject(kind string, fields []hostField, reuse *objBuilder) (*objBuilder, interface{}) {
	if kind == "map" {
		b := reuse
		if b == nil || b.m == nil {
			b = &objBuilder{kind: kind, m: map[string]interface{}{}}
		}
		for k := range b.m {
			delete(b.m, k)
		}
		for _, f := range fields {
			rv, _ := hostValue(f.Kind, f.Val)
			if f.Kind == "iface-nil" {
				b.m[f.Name] = nil
			} else {
				b.m[f.Name] = rv.Interface()
			}
		}
		return b, b.m
	}
	var sfs []reflect.StructField
	var vals []reflect.Value
	for _, f := range fields {
		rv, rt := hostValue(f.Kind, f.Val)
		sfs = append(sfs, reflect.StructField{Name: f.Name, Type: rt})
		vals = append(vals, rv)
	}
	st := reflect.StructOf(sfs)
	b := reuse
	if b == nil || !b.ptr.IsValid() || b.stype != st {
		b = &objBuilder{kind: kind, ptr: reflect.New(st), stype: st}
	}
	for i, rv := range vals {
		b.ptr.Elem().Field(i).Set(rv)
	}
	if kind == "ptr" {
		return b, b.ptr.Interface()
	}
	return b, b.ptr.Elem().Interface()
}

func checkC04(c *Check) {
	c.rule = "MC_Reflect: objects with one field of each of 32 exactly-convertible host values (int, int64, float32/64, string incl. empty and multi-byte, bool, time.Time, typed slices of those incl. empty and nil, []interface{}, string-keyed maps incl. nested and empty), 8 narrow integer kinds and 12 unsupported kinds (chan, func, pointer, nil pointer, nested struct, complex, array, slice of pointers, maps with other key/value types, nil interface) x {struct by value, pointer to struct, map[string]interface{}} x probes {value, type(), read twice}, each run twice; all ordered pairs (and a sample of triples) of exact fields, each read back; histories o1, o2, o1 with the same Go type and another value, also with the same pointer / map changed in place; a variable of the same name (set before Prepare, or assigned by the script after another field was read) takes precedence and a name that is neither is null; struct types are built with reflect.StructOf; TLC enumerates the shapes and the conversion contract gives the expectation (exact value, or one of {value, null, error}); distinct = distinct (object shape, script)"
	c.assumptions = []string{"narrow integer kinds may convert exactly or yield null or an error; unsupported kinds yield null or an error", "what an array keeps of members it cannot represent is not constrained", "noise printed to stdout by the engine is ignored"}
	type reflRun struct {
		O    int     `json:"o"`
		Same bool    `json:"same"`
		Exp  *Expect `json:"exp"`
	}
	type reflRow struct {
		K    string `json:"k"`
		Objs []struct {
			Kind   string          `json:"kind"`
			Fields json.RawMessage `json:"fields"`
		} `json:"objs"`
		Prog json.RawMessage `json:"prog"`
		Vars json.RawMessage `json:"vars"`
		Runs []reflRun       `json:"runs"`
	}
	runRows(c, "MC_Reflect", stdCfg(c.Tier, "Total"), func(row *Row) {
		var r reflRow
		if err := json.Unmarshal(row.Raw, &r); err != nil {
			c.fail("bad row " + err.Error())
			return
		}
		src := (&renderer{}).program(r.Prog)
		key := src + "|" + string(row.Raw[:min(len(row.Raw), 600)])
		c.count(key, true)
		c.sample(map[string]interface{}{"script": src, "objects": r.Objs, "runs": len(r.Runs)})
		for _, opt := range []bool{true, false} {
			mode := "opt"
			if !opt {
				mode = "noopt"
			}
			vars, _ := rowVars(&Row{Vars: r.Vars})
			m, err := newMachine(src, vars, nil, opt, nil)
			if err != nil {
				c.disagree(&Disagreement{Kind: "prepare-failed", Script: src, Mode: mode, Expected: "accepted", Got: err.Error(), Row: row.Raw})
				continue
			}
			var prev *objBuilder
			for ri, run := range r.Runs {
				od := r.Objs[run.O-1]
				var reuse *objBuilder
				if run.Same {
					reuse = prev
				}
				b, obj := buildObject(od.Kind, parseHostFields(od.Fields), reuse)
				prev = b
				exp := mustVal(run.Exp.Out)
				where := fmt.Sprintf("run %d of %d, object %s %s, container reused: %v", ri+1, len(r.Runs), od.Kind, string(od.Fields), run.Same)
				for _, act := range []string{"exec", "run"} {
					o := m.execAct(act, obj)
					if act == "run" {
						// Run must not panic into the host whatever the field holds; its verdict is C20's business
						if o.Panic != nil {
							c.disagree(&Disagreement{Kind: "panic", Script: src, Mode: mode, Expected: "no panic from Run", Got: o.describe(), Row: row.Raw, Detail: map[string]interface{}{"where": where}})
						}
						continue
					}
					if kind, want, got := compareOut(exp, o); kind != "" {
						c.disagree(&Disagreement{Kind: kind, Script: src, Mode: mode, Expected: want, Got: got, Row: row.Raw, Detail: map[string]interface{}{"where": where}})
					}
				}
			}
		}
	})
}
