package main

import (
	"fmt"
	"os"
	"strconv"
)

type checkFn func(c *Check)

var checks = map[string]checkFn{}

func main() {
	if len(os.Args) < 2 {
		fmt.Println("usage: efharness <Cnn> [--tier quick|thorough] [--replay path]")
		os.Exit(2)
	}
	prop := os.Args[1]
	if prop == "c08worker" && len(os.Args) > 3 {
		n, _ := strconv.Atoi(os.Args[3])
		os.Exit(c08Worker(os.Args[2], n))
	}
	if prop == "c10worker" {
		os.Exit(c10Worker())
	}
	if prop == "c11worker" && len(os.Args) > 2 {
		n, _ := strconv.Atoi(os.Args[2])
		os.Exit(c11Worker(n))
	}
	if prop == "c19worker" && len(os.Args) > 2 {
		os.Exit(c19Worker(os.Args[2]))
	}
	tier := os.Getenv("VERIF_TIER")
	replay := ""
	for i := 2; i < len(os.Args); i++ {
		switch os.Args[i] {
		case "--tier":
			i++
			tier = os.Args[i]
		case "--replay":
			i++
			replay = os.Args[i]
		}
	}
	if tier != "thorough" {
		tier = "quick"
	}
	seed := int64(1)
	if s := os.Getenv("VERIF_SEED"); s != "" {
		if v, err := strconv.ParseInt(s, 10, 64); err == nil {
			seed = v
		}
	}
	globalSeed = seed
	if replay != "" {
		os.Exit(replayFile(prop, replay))
	}
	fn, ok := checks[prop]
	if !ok {
		fmt.Printf("no check for %s\n", prop)
		os.Exit(2)
	}
	c := newCheck(prop, tier, seed)
	func() {
		defer func() {
			if r := recover(); r != nil {
				c.fail(fmt.Sprintf("harness panic: %v", r))
			}
		}()
		fn(c)
	}()
	os.Exit(c.finish())
}

// the seed as the specifications see it (CONSTANT Seed): 1 = the default sample; others shift the sampled
// sub-families of the quick tier
var globalSeed int64 = 1

func specSeed() int64 {
	s := globalSeed
	if s < 1 {
		s = 1 - s
	}
	return 1 + (s-1)%1000
}
