package main

// C09: a deadline or cancellation stops any script promptly.

import (
	"context"
	"fmt"
	"strings"
	"time"
)

func init() {
	checks["C09"] = checkC09
}

var c09Loops = []string{
	`while ( true ) { n = n + 1; }`,
	`i = 0; for ( i < 10 ) { i = 0; }`,
	`foreach x in 1..50000 { y = x; }`,
	`function f(n) { return f(n + 1); } return f(0);`,
	`function spin() { while ( true ) { k = 1; } } spin();`,
	`function inner(a) { i = 0; while ( i < 1 ) { foreach c in "abcdefgh" { d = c; } } return a; } function outer(a) { return inner(a) + 1; } foreach z in [1, 2, 3] { t(outer(z)); }`,
	`function a(x) { return b(x); } function b(x) { return c(x); } function c(x) { while ( x ) { x = x + 1; } return x; } return a(1);`,
	`function tree(n) { if ( n < 1 ) { return 1; } return tree(n - 1) + tree(n - 1); } return tree(40);`,
	`function ping(n) { return pong(n); } function pong(n) { if ( n % 2 == 0 ) { return ping(n + 1) + 1; } return ping(n + 3); } foreach q in [1] { r = ping(0); }`,
	`switch ( 1 ) { case 1 { while ( 1 == 1 ) { s = "x"; } } default { return 0; } }`,
	`h = {"a": 1, "b": 2}; while ( len(h) > 0 ) { foreach k, v in h { w = k; } }`,
}

var c09Terminating = []string{
	`s = 0; foreach x in 1..40 { s = s + x; } return s;`,
	`function fact(n) { if ( n < 2 ) { return 1; } return n * fact(n - 1); } return fact(10);`,
	`i = 0; while ( i < 30 ) { i++; } return i;`,
	`return 1 + 2;`,
}

// run the machine on no object in a goroutine of its own
func make2(m *Machine) chan Outcome {
	done := make(chan Outcome, 1)
	go func() { done <- m.exec(nil) }()
	return done
}

func checkC09(c *Check) {
	c.rule = "11 non-terminating scripts (while/for at top level, foreach over a long range, unbounded and mutual recursion, branching recursion without loops, loops inside functions at call depth 1-3 inside loops, a loop inside a switch arm, foreach inside while over a hash) and 4 terminating ones, optimised and unoptimised; for every k in the tier's set the context is cancelled from the step hook after exactly k dispatched instructions (k = -1: before the run) on one evaluator re-used for all k; every run is recorded instruction by instruction and the concatenated trace is validated by TLC against Trace_VM (each step must be a step the machine allows; invariant PromptStop: no instruction is dispatched after the cancellation; the run must then end with an error); plus wall-clock runs with deadlines from already expired to 100 ms, and contexts which carry a far deadline but are cancelled 30 ms into the run or before it (WithTimeout, a cancelled parent, WithCancel over WithDeadline); non-trivial = a run that was cancelled while looping; distinct = distinct (script, mode, k)"
	c.assumptions = []string{"the context is set before Prepare; the harness context can be re-armed between runs", "wall-clock bound: deadline + 1 s, exceeded three times in a row (secondary observation)"}
	ks := []int64{-1, 1, 2, 3, 4, 5, 6, 7, 8, 9, 10, 11, 12, 13, 14, 15, 16, 17, 18, 19, 20, 23, 29, 31, 37, 41, 53, 64, 65, 97, 127, 128, 129, 200, 255, 256, 257, 400, 1000, 1023, 1024, 1025}
	if c.Tier == "thorough" {
		ks = []int64{-1}
		// (fitted to what Trace_VM validates in a few minutes: about 2.7 million recorded instructions)
		for k := int64(1); k <= 400; k++ {
			ks = append(ks, k)
		}
		for k := int64(401); k <= 1300; k += 53 {
			ks = append(ks, k)
		}
		ks = append(ks, 2047, 2048, 2049, 4096, 4097, 5000, 10000)
	}
	var progs []*progDump
	var events []traceEvent
	type runInfo struct {
		script, mode string
		k            int64
		first, last  int
	}
	var runs []runInfo
	for _, group := range [][]string{c09Loops, c09Terminating} {
		looping := &group[0] == &c09Loops[0]
		for _, src := range group {
			for _, opt := range []bool{true, false} {
				d, err := dumpPrepared(src, opt)
				if err != nil {
					c.fail("prepare failed for " + src + ": " + err.Error())
					continue
				}
				d.ID = len(progs) + 1
				progs = append(progs, d)
				rctx := newResetCtx()
				m, err := newMachine(src, nil, []FnSpec{{Name: "t", Kind: "log"}}, opt, rctx)
				if err != nil {
					c.fail("prepare failed: " + err.Error())
					continue
				}
				tr := attachTracer(m)
				klist := ks
				if !looping {
					klist = []int64{0, -1, 1, 2, 3, 5, 8, 13, 21, 34, 55}
				}
				for _, k := range klist {
					evs, o := tr.tracedRun(m, d.ID, nil, k)
					cancelled := false
					for _, e := range evs {
						if e.E == "cancel" {
							cancelled = true
						}
					}
					runs = append(runs, runInfo{src, d.mode, k, len(events), len(events) + len(evs) - 1})
					events = append(events, evs...)
					c.count(fmt.Sprintf("%s|%s|%d", d.mode, src, k), cancelled)
					if len(c.samples) < 3 {
						c.sample(map[string]interface{}{"script": src, "mode": d.mode, "cancel_after_instructions": k, "events": len(evs), "outcome": o.class()})
					}
					// direct observations on the real run (the trace specification checks the same, step by step)
					if cancelled && looping && o.Err == nil {
						c.disagree(&Disagreement{Kind: "cancel-ignored", Script: src, Mode: d.mode, Expected: "an error after cancellation", Got: o.describe(),
							Detail: map[string]interface{}{"cancel_after_instructions": k}})
					}
					if !cancelled && !looping && (o.Err != nil || o.Panic != nil) {
						c.disagree(&Disagreement{Kind: "terminating-script-failed", Script: src, Mode: d.mode, Expected: "normal completion", Got: o.describe()})
					}
					if o.Idle != "" || o.Scopes != 0 {
						c.disagree(&Disagreement{Kind: "machine-not-restored", Script: src, Mode: d.mode, Expected: "machine left as it was found", Got: fmt.Sprintf("%s; %d scopes open", o.Idle, o.Scopes),
							Detail: map[string]interface{}{"cancel_after_instructions": k}})
					}
				}
				detachTracer(m)
			}
		}
	}
	c.extra["trace_events"] = len(events)
	reached, total, violated, err := validateTrace(c, progs, events, []string{"PromptStop", "FramesSane", "NoUnderflow"})
	if err != nil {
		c.fail(err.Error())
	} else if violated != "" || reached < total {
		// locate the run the offending line belongs to
		line := reached - 2 // 0-based index of the last consumed event
		if line < 0 {
			line = 0
		}
		if line >= len(events) {
			line = len(events) - 1
		}
		var ri runInfo
		for _, r := range runs {
			if line >= r.first && line <= r.last {
				ri = r
			}
		}
		what := "step not allowed by the machine specification"
		if violated != "" {
			what = "invariant " + violated + " violated"
		}
		next := line + 1
		if next >= len(events) {
			next = len(events) - 1
		}
		c.disagree(&Disagreement{Kind: "trace-rejected", Script: ri.script, Mode: ri.mode, Expected: "every recorded step is a step of Trace_VM, and no instruction is dispatched after the cancellation",
			Got:    fmt.Sprintf("%s at trace line %d: %s (next: %s)", what, line+1, describeEvent(events[line]), describeEvent(events[next])),
			Detail: map[string]interface{}{"cancel_after_instructions": ri.k, "trace_line": line + 1}})
	} else {
		c.mu.Lock()
		c.traces += int64(len(runs))
		c.mu.Unlock()
	}

	// wall-clock deadlines (secondary): looping scripts must come back with an error in time
	// (a late return is believed only when it is late three times in a row: one slow return on a loaded machine says nothing)
	for _, src := range c09Loops {
		for _, dl := range []time.Duration{-time.Millisecond, time.Millisecond, 10 * time.Millisecond, 100 * time.Millisecond} {
			var late []string
			for attempt := 0; attempt < 3; attempt++ {
				ctx, cancel := context.WithTimeout(context.Background(), dl)
				m, err := newMachine(src, nil, []FnSpec{{Name: "t", Kind: "log"}}, true, ctx)
				if err != nil {
					cancel()
					break
				}
				done := make(chan Outcome, 1)
				start := time.Now()
				go func() { done <- m.exec(nil) }()
				retry := false
				select {
				case o := <-done:
					el := time.Since(start)
					c.count(fmt.Sprintf("wall|%s|%v", src, dl), true)
					finite := strings.HasPrefix(src, "foreach x in 1..") // long, but it ends: finishing before the deadline is fine
					if o.Err == nil && !(finite && dl > 0) {
						c.disagree(&Disagreement{Kind: "deadline-ignored", Script: src, Mode: "opt", Expected: "error at the deadline", Got: o.describe(), Detail: map[string]interface{}{"deadline": dl.String()}})
					} else if limit := dl + time.Second; dl > 0 && el > limit {
						late = append(late, el.String())
						retry = true
					}
				case <-time.After(60 * time.Second):
					c.disagree(&Disagreement{Kind: "deadline-ignored", Script: src, Mode: "opt", Expected: "error at the deadline " + dl.String(), Got: "still running after 60 s"})
				}
				cancel()
				if !retry {
					break
				}
			}
			if len(late) == 3 {
				c.disagree(&Disagreement{Kind: "deadline-late", Script: src, Mode: "opt", Expected: "return within " + (dl + time.Second).String(), Got: strings.Join(late, ", ")})
			}
		}
	}
	// a context which carries a (far) deadline and is cancelled long before it: the cancellation counts
	type mk func() (context.Context, func(), func())
	early := map[string]mk{
		"WithTimeout(30s) cancelled": func() (context.Context, func(), func()) {
			ctx, cancel := context.WithTimeout(context.Background(), 30*time.Second)
			return ctx, cancel, cancel
		},
		"WithTimeout(30s) under a parent which is cancelled": func() (context.Context, func(), func()) {
			parent, pcancel := context.WithCancel(context.Background())
			ctx, cancel := context.WithTimeout(parent, 30*time.Second)
			return ctx, pcancel, func() { cancel(); pcancel() }
		},
		"WithCancel over WithDeadline(+30s), cancelled": func() (context.Context, func(), func()) {
			dl, dcancel := context.WithDeadline(context.Background(), time.Now().Add(30*time.Second))
			ctx, cancel := context.WithCancel(dl)
			return ctx, cancel, func() { cancel(); dcancel() }
		},
	}
	for name, make := range early {
		// (scripts which never end by themselves, or only after minutes)
		for _, src := range []string{c09Loops[0], c09Loops[1], c09Loops[4], c09Loops[6], c09Loops[7]} {
			for _, before := range []bool{false, true} {
				var lateBy []string
				for attempt := 0; attempt < 3; attempt++ {
					ctx, cancel, cleanup := make()
					m, err := newMachine(src, nil, []FnSpec{{Name: "t", Kind: "log"}}, true, ctx)
					if err != nil {
						cleanup()
						break
					}
					if before {
						cancel()
					} else {
						time.AfterFunc(30*time.Millisecond, cancel)
					}
					done := make2(m)
					start := time.Now()
					retry := false
					select {
					case o := <-done:
						el := time.Since(start)
						c.count(fmt.Sprintf("early|%s|%s|%v", name, src, before), true)
						if o.Err == nil {
							c.disagree(&Disagreement{Kind: "cancellation-ignored", Script: src, Mode: "opt", Expected: "an error once the context is cancelled", Got: o.describe(), Detail: map[string]interface{}{"context": name, "cancelled_before_run": before}})
						} else if before && len(o.Calls) > 0 {
							c.disagree(&Disagreement{Kind: "ran-under-cancelled-context", Script: src, Mode: "opt", Expected: "no execution at all", Got: describeCalls(o.Calls), Detail: map[string]interface{}{"context": name}})
						} else if el > 2*time.Second {
							lateBy = append(lateBy, el.String())
							retry = true
						}
					case <-time.After(20 * time.Second):
						c.disagree(&Disagreement{Kind: "cancellation-ignored", Script: src, Mode: "opt", Expected: "an error once the context is cancelled", Got: "still running 20 s after the cancellation (the context's own deadline is 30 s away)", Detail: map[string]interface{}{"context": name, "cancelled_before_run": before}})
					}
					cleanup()
					if !retry {
						break
					}
				}
				if len(lateBy) == 3 {
					c.disagree(&Disagreement{Kind: "cancellation-late", Script: src, Mode: "opt", Expected: "return within 2 s of the cancellation", Got: strings.Join(lateBy, ", "), Detail: map[string]interface{}{"context": name}})
				}
			}
		}
	}
	for _, src := range c09Terminating {
		ctx, cancel := context.WithTimeout(context.Background(), 120*time.Second)
		if m, err := newMachine(src, nil, nil, true, ctx); err == nil {
			o := m.exec(nil)
			c.count("wall-term|"+src, true)
			if o.Err != nil {
				c.disagree(&Disagreement{Kind: "terminating-script-failed", Script: src, Mode: "opt", Expected: "normal completion under a 120 s deadline", Got: o.describe()})
			}
		}
		cancel()
	}
}
