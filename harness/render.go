package main

// Rendering of the specification's abstract syntax (tagged tuples, see
// EFSyntax / DESIGN Appendix A) to script text.  Everything is fully
// bracketed unless a row supplies its own token list.

import (
	"encoding/json"
	"fmt"
	"strings"
)

type node = []json.RawMessage

func asNode(raw json.RawMessage) node {
	var n node
	if err := json.Unmarshal(raw, &n); err != nil {
		panic(fmt.Sprintf("bad node %s: %v", raw, err))
	}
	return n
}

func asString(raw json.RawMessage) string {
	var s string
	if err := json.Unmarshal(raw, &s); err != nil {
		panic(fmt.Sprintf("bad string %s: %v", raw, err))
	}
	return s
}

func asList(raw json.RawMessage) []json.RawMessage {
	var l []json.RawMessage
	if err := json.Unmarshal(raw, &l); err != nil {
		panic(fmt.Sprintf("bad list %s: %v", raw, err))
	}
	return l
}

// leafSubst lets a caller replace literal leaves by references (provenance).
type renderer struct {
	leaf        func(v Val) (string, bool) // returns replacement text for the next literal leaf
	elseIf      bool                       // spell "else { if .. }" as "else if .."
	forSpelling bool                       // spell "while" as "for"
}

var opSpelling = map[string]string{"sqrt": "√"}

func (r *renderer) expr(raw json.RawMessage) string {
	n := asNode(raw)
	switch asString(n[0]) {
	case "lit":
		v := mustVal(n[1])
		if r.leaf != nil {
			if s, ok := r.leaf(v); ok {
				return s
			}
		}
		s, ok := v.Literal()
		if !ok {
			panic("value has no literal: " + string(n[1]))
		}
		return s
	case "ref":
		return asString(n[1])
	case "un":
		op := asString(n[1])
		if s, ok := opSpelling[op]; ok {
			op = s
		}
		return "(" + op + " " + r.expr(n[2]) + ")"
	case "bin":
		op := asString(n[1])
		if op == "[]" {
			return "(" + r.expr(n[2]) + ")[" + r.expr(n[3]) + "]"
		}
		if op == "/" {
			// a slash is division only after ) ] an identifier or a number
			return "((" + r.expr(n[2]) + ") / " + r.expr(n[3]) + ")"
		}
		return "(" + r.expr(n[2]) + " " + op + " " + r.expr(n[3]) + ")"
	case "tern":
		return "(" + r.expr(n[1]) + " ? " + r.expr(n[2]) + " : " + r.expr(n[3]) + ")"
	case "call":
		args := []string{}
		for _, a := range asList(n[2]) {
			args = append(args, r.expr(a))
		}
		return asString(n[1]) + "(" + strings.Join(args, ", ") + ")"
	case "arr":
		parts := []string{}
		for _, a := range asList(n[1]) {
			parts = append(parts, r.expr(a))
		}
		return "[" + strings.Join(parts, ", ") + "]"
	case "hash":
		parts := []string{}
		for _, p := range asList(n[1]) {
			kv := asList(p)
			parts = append(parts, r.expr(kv[0])+": "+r.expr(kv[1]))
		}
		return "{" + strings.Join(parts, ", ") + "}"
	}
	panic("unknown expression node " + string(raw))
}

func (r *renderer) block(raw json.RawMessage) string {
	var sb strings.Builder
	sb.WriteString("{ ")
	for _, s := range asList(raw) {
		sb.WriteString(r.stmt(s))
		sb.WriteString(" ")
	}
	sb.WriteString("}")
	return sb.String()
}

func (r *renderer) stmt(raw json.RawMessage) string {
	n := asNode(raw)
	switch asString(n[0]) {
	case "ret":
		return "return " + r.expr(n[1]) + ";"
	case "expr":
		return r.expr(n[1]) + ";"
	case "asg":
		return asString(n[1]) + " = " + r.expr(n[2]) + ";"
	case "casg":
		return asString(n[2]) + " " + asString(n[1]) + " " + r.expr(n[3]) + ";"
	case "post":
		return asString(n[2]) + asString(n[1]) + ";"
	case "local":
		return "local " + asString(n[1]) + ";"
	case "if":
		s := "if ( " + r.expr(n[1]) + " ) " + r.block(n[2])
		var hasElse bool
		if len(n) > 4 {
			_ = json.Unmarshal(n[4], &hasElse)
		}
		if hasElse {
			// an else block; a block holding a single "if" may be spelled "else if"
			els := asList(n[3])
			if len(els) == 1 && r.elseIf {
				inner := asNode(els[0])
				if asString(inner[0]) == "if" {
					return s + " else " + r.stmt(els[0])
				}
			}
			s += " else " + r.block(n[3])
		}
		return s
	case "while", "for":
		kw := asString(n[0])
		if r.forSpelling {
			kw = "for"
		}
		return kw + " ( " + r.expr(n[1]) + " ) " + r.block(n[2])
	case "foreach":
		idx := asString(n[1])
		head := "foreach "
		if idx != "" {
			head += idx + ", "
		}
		return head + asString(n[2]) + " in " + r.expr(n[3]) + " " + r.block(n[4])
	case "switch":
		var sb strings.Builder
		sb.WriteString("switch ( " + r.expr(n[1]) + " ) { ")
		for _, c := range asList(n[2]) {
			cn := asList(c)
			var isDefault bool
			_ = json.Unmarshal(cn[0], &isDefault)
			if isDefault {
				sb.WriteString("default " + r.block(cn[2]) + " ")
				continue
			}
			es := []string{}
			for _, e := range asList(cn[1]) {
				es = append(es, r.expr(e))
			}
			sb.WriteString("case " + strings.Join(es, ", ") + " " + r.block(cn[2]) + " ")
		}
		sb.WriteString("}")
		return sb.String()
	case "func":
		ps := []string{}
		for _, p := range asList(n[2]) {
			ps = append(ps, asString(p))
		}
		return "function " + asString(n[1]) + "(" + strings.Join(ps, ", ") + ") " + r.block(n[3])
	}
	panic("unknown statement node " + string(raw))
}

func (r *renderer) program(raw json.RawMessage) string {
	parts := []string{}
	for _, s := range asList(raw) {
		parts = append(parts, r.stmt(s))
	}
	return strings.Join(parts, " ")
}

// tokens: a list whose items are strings (verbatim) or values (rendered as literals)
func renderTokens(raw json.RawMessage, sep string) string {
	parts := []string{}
	for _, t := range asList(raw) {
		var probe interface{}
		_ = json.Unmarshal(t, &probe)
		if s, ok := probe.(string); ok {
			parts = append(parts, s)
			continue
		}
		s, ok := mustVal(t).Literal()
		if !ok {
			panic("token value has no literal " + string(t))
		}
		parts = append(parts, s)
	}
	return strings.Join(parts, sep)
}
