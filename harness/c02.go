package main

func init() {
	checks["C02"] = checkC02
}

// C02: compositions of instrumented control-flow constructs under all truth assignments.
func checkC02(c *Check) {
	c.rule = "MC_Flow composes the 31 instrumented constructs of EFSyntax (if / else if / else, while, for, foreach over array/string/hash/range/variable with and without index, switch by literal/multi-value/expression/regexp/default, ternary, early return) nested and in sequence (quick: all pairs + 1/11 of triples; thorough: all triples); a regexp-case family (3 programs x 10 values which are not strings: either the printed form is tested or no regexp case matches, one of the two everywhere, never an error); a switch-value family (5 programs switching on a host function which counts its calls: the switch has ONE value); a tail family: 7 block constructs whose last statement is one of 7 block constructs with nothing after them (the script runs off its end); MC_Opt supplies the same compositions with 12 constant conditions in place of the fields; each program is run under every truth assignment of its condition fields, in sequence on one evaluator; result, t(n) call sequence and variables are compared with EFSemantics; non-trivial = expectation is a value; distinct = distinct script text; in addition every 12th (thorough: 16th of many more) evaluator, up to 0.8 (thorough: 3) million instructions, is recorded instruction by instruction and the trace validated against Trace_VM (jump targets, frame discipline, operand-stack heights and computed values at every step); the repository's own test suite (root package and vm) is run in a scratch copy built with the verif tag and a recorder, and every machine run it performs - and every example script of the repository on its example document - is validated against Trace_VM in the same way"
	c.assumptions = []string{
		"host function t() returns the void value; conditions are boolean object fields",
		"switch case matching between an integer and an equal float, ranges a..b with a>b are unconstrained and not generated",
	}
	every, max := 12, 800000
	if c.Tier == "thorough" {
		every, max = 16, 3000000
	}
	tc := &traceCollector{every: every, max: max}
	rc := &reCaseTracker{}
	runRows(c, "MC_Flow", stdCfg(c.Tier, "Specified", "Bounded"), func(row *Row) {
		if row.K == "recase" {
			rc.replay(c, row)
			return
		}
		replayProgRow(c, row, progOpts{collector: tc})
	})
	rc.finish(c)
	// the same constructs with constant conditions (literals, folded comparisons): what the optimizer rewrites
	runRows(c, "MC_Opt", stdCfg(c.Tier, "Specified"), func(row *Row) {
		replayProgRow(c, row, progOpts{collector: tc})
	})
	// code -> spec: the sampled executions, recorded instruction by instruction, are steps of Trace_VM
	tc.validate(c)
	// code -> spec on executions nobody wrote for this purpose: every machine run of the repository's own tests
	// (root package and vm, hand-assembled byte code included) and of its example scripts
	suiteTraces(c)
}
