package main

import (
	"encoding/json"
	"fmt"
)

// MC_Refine: TLC checks inside the specification that the model machine (EFVM) running the model
// compiler's code agrees with the reference semantics, and that the model optimizer's output behaves
// like its input.  This file binds EFVM to the real machine: the <<offset, opcode>> of every
// instruction the model executed must be what the real machine executes (step hook) for the same
// program and input, unoptimised and optimised, and the results must be the same.  A difference is
// "drift" (model and implementation took different paths); it is reported and counted, and it is a
// verdict only through the observable result, which the other phases compare as well.

type refineRun struct {
	Obj  json.RawMessage `json:"obj"`
	Sem  json.RawMessage `json:"sem"`
	VM   json.RawMessage `json:"vm"`
	Opt  json.RawMessage `json:"opt"`
	St   string          `json:"st"`
	IPs  [][2]int        `json:"ips"`
	OIPs [][2]int        `json:"oips"`
	Ref  bool            `json:"refines"`
	Pres bool            `json:"preserved"`
}

type refineRow struct {
	Fam  string          `json:"fam"`
	Prog json.RawMessage `json:"prog"`
	OK   bool            `json:"ok"`
	Vars json.RawMessage `json:"vars"`
	Runs []refineRun     `json:"runs"`
}

func stepsOf(events []traceEvent) [][2]int {
	var out [][2]int
	for _, e := range events {
		if e.E == "step" {
			out = append(out, [2]int{e.IP, e.Op})
		}
	}
	return out
}

// pathDiff: "" when the recorded path is the model's path (a prefix of it suffices when the model stopped
// at a point from which it says nothing)
func pathDiff(model, real [][2]int, whole bool) string {
	n := len(model)
	if len(real) < n {
		n = len(real)
	}
	for i := 0; i < n; i++ {
		if model[i] != real[i] {
			return fmt.Sprintf("step %d: model executes offset %d opcode %d, implementation offset %d opcode %d", i+1, model[i][0], model[i][1], real[i][0], real[i][1])
		}
	}
	if len(real) < len(model) {
		return fmt.Sprintf("the implementation stops after %d instructions, the model executes %d", len(real), len(model))
	}
	if whole && len(real) > len(model) {
		return fmt.Sprintf("the model stops after %d instructions, the implementation executes %d", len(model), len(real))
	}
	return ""
}

func runRefine(c *Check) {
	programs, runs, drift, untranslated := 0, 0, 0, 0
	fns := []FnSpec{{Name: "t", Kind: "log"}}
	runRows(c, "MC_Refine", stdCfg(c.Tier, "CompilerRefines", "OptimizerPreserves"), func(row *Row) {
		var rr refineRow
		if err := json.Unmarshal(row.Raw, &rr); err != nil {
			c.fail("MC_Refine row does not parse: " + err.Error())
			return
		}
		if !rr.OK {
			untranslated++
			return
		}
		src := (&renderer{elseIf: true}).program(rr.Prog)
		c.count("refine|"+src, len(rr.Runs) > 0)
		programs++
		for mi, opt := range []bool{false, true} {
			vars, _ := rowVars(&Row{Vars: rr.Vars})
			m, err := newMachine(src, vars, fns, opt, newResetCtx())
			if err != nil {
				c.disagree(&Disagreement{Kind: "prepare-failed", Script: src, Expected: "accepted", Got: err.Error(), Row: row.Raw})
				return
			}
			tr := attachTracer(m)
			m.countSteps(100000) // a run that never ends is cut off (the model's path is then a prefix of the real one)
			for ri, r := range rr.Runs {
				obj, ok := objFromPairs(r.Obj)
				if !ok {
					c.fail("MC_Refine object does not parse: " + string(r.Obj))
					break
				}
				events, o := tr.tracedRun(m, 0, obj, 0)
				model, want := r.IPs, r.VM
				if opt {
					model, want = r.OIPs, r.Opt
				}
				if mi == 0 {
					runs++
				}
				whole := r.St == "ok" || r.St == "err"
				if why := pathDiff(model, stepsOf(events), whole); why != "" {
					drift++
					if drift <= 5 {
						fmt.Printf("NOTE: EFVM and the real machine take different paths (optimised=%v, run %d) on %q: %s\n", opt, ri+1, src, why)
					}
				}
				if kind, w, g := compareOut(mustVal(want), o); kind != "" {
					c.disagree(&Disagreement{Kind: kind, Script: src, Mode: map[bool]string{true: "opt", false: "noopt"}[opt], Expected: w, Got: g, Detail: map[string]interface{}{"run": ri + 1}, Row: row.Raw})
				}
			}
			detachTracer(m)
			m.release()
		}
	})
	c.extra["refinement_programs"] = programs
	c.extra["refinement_runs"] = runs
	c.extra["refinement_path_drift"] = drift
	c.extra["refinement_untranslated"] = untranslated
}
