package main

import (
	"encoding/json"
	"fmt"
	"os"
)

// replayFile re-runs the case recorded in a replay file and reports whether it still disagrees.
func replayFile(prop, path string) int {
	b, err := os.ReadFile(path)
	if err != nil {
		fmt.Println(err)
		return 2
	}
	var d Disagreement
	if err := json.Unmarshal(b, &d); err != nil {
		fmt.Println(err)
		return 2
	}
	fmt.Printf("replay %s: kind=%s mode=%s\n script: %s\n expected: %s\n recorded: %s\n", path, d.Kind, d.Mode, d.Script, d.Expected, d.Got)
	if d.Script == "" {
		return 0
	}
	for _, opt := range []bool{true, false} {
		m, err := newMachine(d.Script, nil, []FnSpec{{Name: "t", Kind: "log"}}, opt, nil)
		if err != nil {
			fmt.Printf(" optimise=%v: prepare error: %v\n", opt, err)
			continue
		}
		o := m.exec(nil)
		fmt.Printf(" optimise=%v (nil object, no variables): %s calls=[%s]\n", opt, o.describe(), describeCalls(o.Calls))
	}
	return 0
}
