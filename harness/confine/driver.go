// Package main references every public entry point of the library, so that a
// call-graph construction rooted here covers everything a host (with only the
// built-in functions registered) and a script can drive.
package main

import (
	"context"

	"github.com/skx/evalfilter/v2"
	"github.com/skx/evalfilter/v2/object"
)

func main() {
	e := evalfilter.New("return true;")
	e.SetContext(context.Background())
	e.SetVariable("x", &object.Integer{Value: 1})
	if err := e.Prepare(); err != nil {
		return
	}
	if err := e.Prepare([]byte{evalfilter.NoOptimize}); err != nil {
		return
	}
	_, _ = e.Run(map[string]interface{}{"a": 1})
	_, _ = e.Execute(struct{ A int }{1})
	_ = e.GetVariable("x")
	_ = e.Dump()
}
