package main

// C11: evaluators used from many goroutines.

import (
	"bytes"
	"context"
	"encoding/json"
	"fmt"
	"os"
	"os/exec"
	"path/filepath"
	"reflect"
	"runtime"
	"strconv"
	"strings"
	"sync"
	"time"

	"github.com/skx/evalfilter/v2"
	"github.com/skx/evalfilter/v2/code"
	"github.com/skx/evalfilter/v2/environment"
	"github.com/skx/evalfilter/v2/object"
	"github.com/skx/evalfilter/v2/vm"
)

func init() {
	checks["C11"] = checkC11
}

func goid() int {
	var buf [64]byte
	n := runtime.Stack(buf[:], false)
	f := strings.Fields(strings.TrimPrefix(string(buf[:n]), "goroutine "))
	id, _ := strconv.Atoi(f[0])
	return id
}

type concEvent struct {
	G int    `json:"g"`
	E string `json:"e"`
	X string `json:"x"`
	O string `json:"o"` // the evaluator owning the location ("" for the regexp cache)
	C bool   `json:"c"`
}

const sharedScript = `function more(l, k) { return len(l) > k; } n = n + 1; if ( Name ~= /^a/ ) { return true; } return more(Tags, 1);`
const ownScript = `function fib(k) { if ( k < 2 ) { return k; } return fib(k - 1) + fib(k - 2); } c = c + 1; h = {"k": 1, "n": Name, 1.5: 2}; return fib(7) == 13 && h["k"] == 1 && h[1.5] == 2 && h["n"] == Name && year(Stamp) == 2023 && ( Name ~= /b+/ || match(Name, Pattern) );`

// an evaluator with a deadline: the run on a spinning object is cut off, the others go through
const timedScript = `while ( Spin ) { } return true;`

type concRecorder struct {
	mu     sync.Mutex
	events []concEvent
	names  map[*evalfilter.Eval]string
	vms    map[*vm.VM]string
	consts map[*vm.VM][]object.Object
	gids   map[int]int
	lastOp map[int][2]int // per goroutine: previous op and arg
	lastVM map[int]string // per goroutine: the evaluator whose machine state its last event touched ("" = none)
}

func (r *concRecorder) g() int {
	id := goid()
	if v, ok := r.gids[id]; ok {
		return v
	}
	r.gids[id] = len(r.gids) + 1
	return r.gids[id]
}

func (r *concRecorder) add(e, x string, c bool) {
	if r.lastVM != nil && !(e == "wr" && strings.HasSuffix(x, ".vm")) {
		delete(r.lastVM, r.g()) // any other event of this goroutine ends its stretch of machine-state accesses
	}
	owner := ""
	if e == "lock" || e == "unlock" {
		owner = x
	} else if k := strings.Index(x, "."); k > 0 {
		owner = x[:k]
	}
	r.events = append(r.events, concEvent{G: r.g(), E: e, X: x, O: owner, C: c})
}

// record one real concurrent execution of the scenario and return its events
func recordConcurrent(c *Check) ([]concEvent, bool) {
	rec := &concRecorder{names: map[*evalfilter.Eval]string{}, vms: map[*vm.VM]string{}, consts: map[*vm.VM][]object.Object{}, gids: map[int]int{}, lastOp: map[int][2]int{}, lastVM: map[int]string{}}
	mk := func(name, src, counter string) *evalfilter.Eval {
		e := evalfilter.New(src)
		e.SetVariable(counter, &object.Integer{Value: 0})
		if err := e.Prepare(); err != nil {
			c.fail("C11 scenario script rejected: " + err.Error())
			return nil
		}
		rec.names[e] = name
		rec.vms[e.VerifMachine()] = name
		rec.consts[e.VerifMachine()] = e.VerifMachine().VerifConstants()
		return e
	}
	shared := mk("S", sharedScript, "n")
	own1 := mk("A", ownScript, "c")
	own2 := mk("B", ownScript, "c")
	if shared == nil || own1 == nil || own2 == nil {
		return nil, false
	}
	// (its context is re-armed for every run: each spinning run is cut off 30 ms after it started)
	timed := evalfilter.New(timedScript)
	timedCtx := newResetCtx()
	timed.SetContext(timedCtx)
	if err := timed.Prepare(); err != nil {
		c.fail("C11 scenario script rejected: " + err.Error())
		return nil, false
	}
	rec.names[timed] = "T"
	rec.vms[timed.VerifMachine()] = "T"
	rec.consts[timed.VerifMachine()] = timed.VerifMachine().VerifConstants()
	evalfilter.VerifLockHook = func(e *evalfilter.Eval, ev string) {
		rec.mu.Lock()
		defer rec.mu.Unlock()
		if n, ok := rec.names[e]; ok {
			rec.add(ev, n, false)
		}
	}
	environment.VerifCacheHook = func(ev, key string) {
		rec.mu.Lock()
		defer rec.mu.Unlock()
		switch ev {
		case "lock":
			rec.add("clock", "cache-lock", false)
		case "unlock":
			rec.add("cunlock", "cache-lock", false)
		case "read":
			rec.add("crd", "cache", false)
		case "write":
			rec.add("cwr", "cache", false)
		}
	}
	prevStep := vm.VerifStepHook
	vm.VerifStepHook = func(m *vm.VM, ip int, op code.Opcode, arg int) {
		name, ok := rec.vms[m]
		if !ok {
			if prevStep != nil {
				prevStep(m, ip, op, arg)
			}
			return
		}
		rec.mu.Lock()
		defer rec.mu.Unlock()
		g := rec.g()
		counter := "n"
		if name != "S" {
			counter = "c"
		}
		last := rec.lastOp[g]
		cs := rec.consts[m]
		switch {
		case op == code.OpLookup && arg < len(cs) && cs[arg].Inspect() == counter:
			rec.add("rd", name+"."+counter, true)
		case op == code.OpSet && last[0] == int(code.OpConstant) && last[1] < len(cs) && cs[last[1]].Inspect() == counter:
			rec.add("wr", name+"."+counter, true)
		default:
			// every instruction works on the machine's own state; one event per stretch is enough
			// (merged per goroutine: what others record in between does not split the stretch)
			if rec.lastVM[g] != name {
				rec.add("wr", name+".vm", false)
				rec.lastVM[g] = name
			}
		}
		rec.lastOp[g] = [2]int{int(op), arg}
	}
	defer func() {
		evalfilter.VerifLockHook = nil
		environment.VerifCacheHook = nil
		vm.VerifStepHook = prevStep
	}()
	var wg sync.WaitGroup
	start := make(chan struct{})
	objs := []interface{}{map[string]interface{}{"Name": "abc", "Tags": []interface{}{"x"}}, nil, map[string]interface{}{"Name": "zz", "Tags": []interface{}{"x", "y"}}}
	for gi := 0; gi < 3; gi++ {
		wg.Add(1)
		go func(gi int) {
			defer wg.Done()
			<-start
			for r := 0; r < 2; r++ {
				_, _ = shared.Run(objs[(gi+r)%3])
			}
		}(gi)
	}
	for gi, e := range []*evalfilter.Eval{own1, own2} {
		wg.Add(1)
		go func(gi int, e *evalfilter.Eval) {
			defer wg.Done()
			<-start
			_, _ = e.Run(map[string]interface{}{"Name": "abb", "Stamp": int64(1700000000), "Pattern": fmt.Sprintf("x%d+y%d", gi, time.Now().UnixNano()%1000)})
		}(gi, e)
	}
	// the deadline of the timed evaluator: its context is cancelled every 20 ms and re-armed a moment later, so
	// that every spinning run - whenever it gets the lock - is cut off
	stopPulse := make(chan struct{})
	go pulse(timedCtx, stopPulse)
	defer close(stopPulse)
	for gi := 0; gi < 2; gi++ {
		wg.Add(1)
		go func(gi int) {
			defer wg.Done()
			<-start
			for r := 0; r < 2; r++ {
				_, _ = timed.Run(map[string]interface{}{"Spin": (gi+r)%2 == 0})
			}
		}(gi)
	}
	close(start)
	// every call returns: a goroutine still inside Run after a minute is stuck for good
	done := make(chan struct{})
	go func() { wg.Wait(); close(done) }()
	select {
	case <-done:
	case <-time.After(60 * time.Second):
		rec.mu.Lock()
		evs := append([]concEvent{}, rec.events...)
		rec.mu.Unlock()
		c.disagree(&Disagreement{Kind: "concurrency", Script: sharedScript + "  ||  " + ownScript + "  ||  " + timedScript,
			Expected: "every concurrent call of Run returns", Got: "some goroutines are still inside Run a minute after the last deadline (the recorded events end with a lock that is never released)",
			Detail: map[string]interface{}{"last_events": evs[max(0, len(evs)-12):]}})
		return nil, false
	}
	return rec.events, true
}

// ---- the race-detector worker ----------------------------------------------------------------
// (this function runs inside a binary built with -race; a report makes the process exit with 66)
func c11Worker(rounds int) int {
	bad := 0
	for round := 0; round < rounds; round++ {
		shared := evalfilter.New(sharedScript)
		shared.SetVariable("n", &object.Integer{Value: 0})
		if shared.Prepare() != nil {
			return 2
		}
		const G, R = 8, 5
		var wg sync.WaitGroup
		start := make(chan struct{})
		verdicts := make([][]bool, G)
		objs := []interface{}{map[string]interface{}{"Name": "abc", "Tags": []interface{}{"x"}}, nil, map[string]interface{}{"Name": "zz", "Tags": []interface{}{"x", "y"}}, map[string]interface{}{"Name": "q", "Tags": []interface{}{}}}
		// what a one-at-a-time run gives each object (verdict, failed?)
		type res struct{ v, failed bool }
		want := make([]res, len(objs))
		{
			seq := evalfilter.New(sharedScript)
			seq.SetVariable("n", &object.Integer{Value: 0})
			if seq.Prepare() != nil {
				return 2
			}
			for i, o := range objs {
				v, err := seq.Run(o)
				want[i] = res{v, err != nil}
			}
		}
		for g := 0; g < G; g++ {
			wg.Add(1)
			go func(g int) {
				defer wg.Done()
				<-start
				for r := 0; r < R; r++ {
					v, err := shared.Run(objs[(g+r)%4])
					w := want[(g+r)%4]
					verdicts[g] = append(verdicts[g], (err != nil) == w.failed && v == w.v)
				}
			}(g)
		}
		const M = 4
		ownOK := make([]bool, M)
		for mI := 0; mI < M; mI++ {
			wg.Add(1)
			go func(mI int) {
				defer wg.Done()
				<-start
				e := evalfilter.New(ownScript)
				e.SetVariable("c", &object.Integer{Value: 0})
				if e.Prepare() != nil {
					return
				}
				ok := true
				for r := 0; r < R; r++ {
					// a struct of a type nobody has seen before (the goroutines of a round share it), or a map
					var obj interface{} = map[string]interface{}{"Name": "abb", "Stamp": int64(1700000000), "Pattern": fmt.Sprintf("r%dm%dx%d+", round, mI, r)}
					if r%2 == 0 {
						obj = freshRecord(fmt.Sprintf("X%dr%d", round, r), "abb", fmt.Sprintf("r%dm%dx%d+", round, mI, r))
					}
					v, err := e.Run(obj)
					ok = ok && err == nil && v
				}
				cv := e.GetVariable("c")
				ownOK[mI] = ok && cv.Inspect() == fmt.Sprint(R)
			}(mI)
		}
		// an evaluator with a deadline shared by three goroutines: spinning runs are cut off, every call returns
		timed := evalfilter.New(timedScript)
		tctx := newResetCtx()
		timed.SetContext(tctx)
		if timed.Prepare() != nil {
			return 2
		}
		stopPulse := make(chan struct{})
		go pulse(tctx, stopPulse)
		timedOK := make([]bool, 3)
		for ti := 0; ti < 3; ti++ {
			wg.Add(1)
			go func(ti int) {
				defer wg.Done()
				<-start
				ok := true
				for r := 0; r < 3; r++ {
					spin := (ti+r)%3 == 0
					v, err := timed.Run(map[string]interface{}{"Spin": spin})
					if spin {
						ok = ok && err != nil
					} else {
						// (a run which is not spinning may still be hit by the deadline: it then fails, never lies)
						ok = ok && (err != nil || v)
					}
				}
				timedOK[ti] = ok
			}(ti)
		}
		close(start)
		finished := make(chan struct{})
		go func() { wg.Wait(); close(finished) }()
		select {
		case <-finished:
			close(stopPulse)
		case <-time.After(90 * time.Second):
			fmt.Println("STUCK some calls of Run never returned")
			return 1
		}
		for ti, ok := range timedOK {
			if !ok {
				bad++
				fmt.Printf("WRONG-RESULT timed evaluator %d\n", ti)
			}
		}
		for g := range verdicts {
			for _, ok := range verdicts[g] {
				if !ok {
					bad++
					fmt.Println("WRONG-VERDICT shared evaluator")
				}
			}
		}
		if n := shared.GetVariable("n").Inspect(); n != fmt.Sprint(G*R) {
			bad++
			fmt.Printf("LOST-UPDATE counter is %s after %d runs\n", n, G*R)
		}
		for mI, ok := range ownOK {
			if !ok {
				bad++
				fmt.Printf("WRONG-RESULT own evaluator %d\n", mI)
			}
		}
	}
	if bad > 0 {
		return 1
	}
	fmt.Println("RACE-WORKER-OK")
	return 0
}

func buildRaceWorker() (string, error) {
	out := filepath.Join(verifRoot, ".bin", "efharness-race")
	cmd := exec.Command("go", "build", "-race", "-tags", "verif", "-o", out, ".")
	cmd.Dir = filepath.Join(verifRoot, "harness")
	cmd.Env = append(os.Environ(), "GOFLAGS=-mod=mod", "GOPROXY=off", "GOSUMDB=off", "GOTOOLCHAIN=local", "CGO_ENABLED=1")
	if b, err := cmd.CombinedOutput(); err != nil {
		return "", fmt.Errorf("building the race-detector worker: %v\n%s", err, lastLines(string(b), 15))
	}
	return out, nil
}

func checkC11(c *Check) {
	c.rule = "one real concurrent execution (3 goroutines x 2 Run calls on a shared evaluator with objects incl. nil, a persistent counter, a regexp and a user-defined function; 2 goroutines with evaluators of their own running a recursive function, building and reading a hash with string and float keys, decomposing a time and matching never-seen patterns; in the race-detector worker half of their objects are structs of types nobody has seen before; 2 goroutines sharing an evaluator with a deadline, half of whose runs spin until they are cut off) is recorded through the lock, cache and step hooks as per-goroutine event sequences (evaluator lock/unlock, cache lock/unlock/read/write, reads and writes of the counter, accesses to the machine state); TLC (Trace_Conc) keeps program order and lock semantics and explores ALL interleavings consistent with them, checking NoDataRace (two goroutines about to touch one location, one writing, no common lock), NoLostUpdate, MutualExclusion, Balanced, NoDeadlock and LockDiscipline (every access happens under the lock of its owner, locks are released in reverse order); the same module (EFConc) is first explored as a design (MC_Conc: G goroutines x R runs on a shared evaluator, M evaluators of their own, all interleavings; with the evaluator lock or the cache lock removed TLC must find the race, the lost update and the broken discipline); the same scenario, larger (8+4 goroutines x 5 runs, repeated), runs in a worker built with the Go race detector: a race report, a lost update or a wrong verdict is a violation; distinct = recorded events / worker rounds"
	c.assumptions = []string{"the hooks sit at the accesses to shared state (the cache hooks are inside compileRegexp, the lock hooks next to the evaluator mutex, the step hook sees every instruction)", "Go's race detector observes the schedules that occur; TLC's exhaustiveness is over the recorded events"}
	events, ok := recordConcurrent(c)
	if !ok {
		return
	}
	var sb strings.Builder
	for _, e := range events {
		b, _ := json.Marshal(e)
		sb.Write(b)
		sb.WriteByte('\n')
		c.count(fmt.Sprintf("ev|%d|%s|%s|%d", e.G, e.E, e.X, sb.Len()), true)
	}
	c.extra["recorded_events"] = len(events)
	if len(events) > 0 {
		c.sample(events[:min(len(events), 24)])
	}
	// the design first: G goroutines x R runs on a shared evaluator and M evaluators of their own, every interleaving;
	// then the same with each lock switched off, which must fail - else the invariants say nothing
	designConc(c)
	cfg := "SPECIFICATION Spec\nCONSTANT Events <- Recorded\nINVARIANT NoDataRace\nINVARIANT NoLostUpdate\nINVARIANT MutualExclusion\nINVARIANT Balanced\nINVARIANT NoDeadlock\nINVARIANT LockDiscipline\nCHECK_DEADLOCK FALSE\n"
	// goroutines which share no lock and no location cannot influence each other: each connected group of
	// goroutines is explored on its own (the product of independent groups only multiplies the states)
	tlcRace := ""
	var res *tlcResult
	groups := independentGroups(events)
	c.extra["independent_groups"] = len(groups)
	for _, grp := range groups {
		var gb strings.Builder
		for _, e := range grp {
			b, _ := json.Marshal(e)
			gb.Write(b)
			gb.WriteByte('\n')
		}
		r, err := runTLC(tlcOpts{Module: "Trace_Conc", Cfg: cfg, Timeout: 20 * time.Minute, Extra: map[string]string{"conc.ndjson": gb.String()}})
		if r != nil {
			c.addTLC(r)
			res = r
		}
		if err != nil {
			c.fail(err.Error())
		} else if r.Violation != "" {
			tlcRace = r.Violation
			break
		} else {
			c.mu.Lock()
			c.traces++
			c.mu.Unlock()
		}
	}
	// confirmation on the real code under the race detector
	rounds := 30
	if c.Tier == "thorough" {
		rounds = 400
	}
	bin, err := buildRaceWorker()
	if err != nil {
		c.fail(err.Error())
		return
	}
	confirmed := ""
	for _, procs := range []string{"2", "4", "16"} {
		ctx, cancel := context.WithTimeout(context.Background(), 15*time.Minute)
		cmd := exec.CommandContext(ctx, bin, "c11worker", fmt.Sprint(rounds))
		cmd.Env = append(os.Environ(), "GORACE=halt_on_error=1 exitcode=66", "GOMAXPROCS="+procs)
		var buf bytes.Buffer
		cmd.Stdout = &buf
		cmd.Stderr = &buf
		rerr := cmd.Run()
		cancel()
		c.count("race-worker|"+procs, true)
		out := buf.String()
		if rerr != nil || !strings.Contains(out, "RACE-WORKER-OK") {
			what := "the worker failed"
			switch {
			case strings.Contains(out, "DATA RACE"):
				what = "data race reported by the Go race detector"
			case strings.Contains(out, "concurrent map"):
				what = "fatal concurrent map access"
			case strings.Contains(out, "STUCK"):
				what = "calls of Run which never return (a lock is never released)"
			case strings.Contains(out, "LOST-UPDATE"):
				what = "lost update of the persistent counter"
			case strings.Contains(out, "WRONG-"):
				what = "a call returned what no sequential order gives"
			}
			confirmed = fmt.Sprintf("%s (GOMAXPROCS=%s): %s", what, procs, truncate(firstLines(out, 14), 900))
			break
		}
	}
	switch {
	case confirmed != "":
		c.disagree(&Disagreement{Kind: "concurrency", Script: sharedScript + "  ||  " + ownScript, Expected: "race-free, every verdict sequentially explainable, no lost update", Got: confirmed,
			Detail: map[string]interface{}{"tlc": tlcRace}})
	case tlcRace != "":
		// TLC found an interleaving of the recorded events which violates the invariant, but the real
		// code did not show it under the race detector: not reproduced, hence not a verdict
		c.fail("Trace_Conc: invariant " + tlcRace + " fails on the recorded events, but the race-detector runs did not reproduce it\n" + lastLines(res.Output, 40))
	}
}

// designConc runs MC_Conc: the design with both locks (must hold on every interleaving), and with each lock
// removed (TLC must find the race / the lost update: the guard against vacuous invariants)
func designConc(c *Check) {
	type conf struct {
		g, r, m             int
		evalLock, cacheLock bool
		invs                []string
		want                string // "" = must hold; else the invariant TLC must report
	}
	all := []string{"NoDataRace", "NoLostUpdate", "MutualExclusion", "Balanced", "NoDeadlock", "LockDiscipline"}
	confs := []conf{
		{2, 2, 1, true, true, all, ""},
		{2, 1, 0, false, true, []string{"NoDataRace"}, "NoDataRace"},
		{2, 1, 0, false, true, []string{"NoLostUpdate"}, "NoLostUpdate"},
		{1, 1, 1, true, false, []string{"NoDataRace"}, "NoDataRace"},
		{1, 1, 1, true, false, []string{"LockDiscipline"}, "LockDiscipline"},
	}
	if c.Tier == "thorough" {
		confs = append(confs, conf{3, 2, 1, true, true, all[:5], ""}, conf{2, 3, 2, true, true, all[:5], ""}, conf{3, 2, 2, true, true, all[:5], ""},
			conf{4, 2, 1, true, true, all[:5], ""}, conf{3, 3, 1, true, true, all[:5], ""}, conf{4, 2, 2, true, true, all[:5], ""}) // (the last: 11 million distinct states)
	}
	held := 0
	for _, cf := range confs {
		b := func(x bool) string {
			if x {
				return "TRUE"
			}
			return "FALSE"
		}
		cfg := fmt.Sprintf("SPECIFICATION Spec\nCONSTANTS G = %d\nR = %d\nM = %d\nEvalLock = %s\nCacheLock = %s\nEvents <- Designed\n", cf.g, cf.r, cf.m, b(cf.evalLock), b(cf.cacheLock))
		for _, inv := range cf.invs {
			cfg += "INVARIANT " + inv + "\n"
		}
		cfg += "CHECK_DEADLOCK FALSE\n"
		res, err := runTLC(tlcOpts{Module: "MC_Conc", Cfg: cfg, Timeout: 30 * time.Minute})
		if res != nil {
			c.addTLC(res)
		}
		if err != nil {
			c.fail("MC_Conc: " + err.Error())
			continue
		}
		what := fmt.Sprintf("MC_Conc G=%d R=%d M=%d EvalLock=%v CacheLock=%v", cf.g, cf.r, cf.m, cf.evalLock, cf.cacheLock)
		switch {
		case cf.want == "" && res.Violation != "":
			// the design itself is wrong, or the model of it: nothing to reproduce on the code from here - the
			// recorded execution and the race detector below decide about the code
			c.fail(what + ": invariant " + res.Violation + " fails on the design model\n" + lastLines(res.Output, 30))
		case cf.want != "" && res.Violation != cf.want:
			c.fail(what + ": expected TLC to report " + cf.want + " (the lock is what prevents it), got " + fmt.Sprintf("%q", res.Violation))
		default:
			held++
		}
		c.count("design|"+what+"|"+strings.Join(cf.invs, ","), true)
	}
	c.extra["design_configurations"] = held
}

// independentGroups splits the recorded events into the connected components of "shares a lock or a location"
func independentGroups(events []concEvent) [][]concEvent {
	parent := map[int]int{}
	var find func(int) int
	find = func(x int) int {
		if p, ok := parent[x]; ok && p != x {
			parent[x] = find(p)
			return parent[x]
		}
		parent[x] = x
		return x
	}
	first := map[string]int{}
	for _, e := range events {
		find(e.G)
		key := e.X
		if e.E == "clock" || e.E == "cunlock" {
			key = "cache-lock"
		}
		if g, ok := first[key]; ok {
			parent[find(e.G)] = find(g)
		} else {
			first[key] = e.G
		}
	}
	byRoot := map[int][]concEvent{}
	var roots []int
	for _, e := range events {
		r := find(e.G)
		if _, ok := byRoot[r]; !ok {
			roots = append(roots, r)
		}
		byRoot[r] = append(byRoot[r], e)
	}
	var out [][]concEvent
	for _, r := range roots {
		out = append(out, byRoot[r])
	}
	return out
}

// freshRecord builds a struct value of a type made for the occasion: fields Name, Pattern, Stamp and one more
// whose name makes the type a new one (reflect.StructOf returns the same type for the same fields)
func freshRecord(extra, name, pattern string) interface{} {
	t := reflect.StructOf([]reflect.StructField{
		{Name: "Name", Type: reflect.TypeOf("")}, {Name: "Pattern", Type: reflect.TypeOf("")}, {Name: "Stamp", Type: reflect.TypeOf(int64(0))},
		{Name: extra, Type: reflect.TypeOf(0)},
	})
	v := reflect.New(t).Elem()
	v.Field(0).SetString(name)
	v.Field(1).SetString(pattern)
	v.Field(2).SetInt(1700000000)
	return v.Interface()
}

// pulse cancels the context every 20 ms and re-arms it a millisecond later, until stop is closed
func pulse(ctx *resetCtx, stop chan struct{}) {
	for {
		select {
		case <-stop:
			return
		case <-time.After(20 * time.Millisecond):
		}
		ctx.cancel()
		time.Sleep(time.Millisecond)
		ctx.reset()
	}
}

func firstLines(s string, n int) string {
	ls := strings.Split(s, "\n")
	if len(ls) > n {
		ls = ls[:n]
	}
	return strings.Join(ls, "\n")
}
